"""C06 - construction stores every particle once, in the right leaf, bit-exactly; execute never alters them."""
from .treecommon import D, ASSUME, finish, run_specs
from .. import e1

TEXT = ('cbmc (bit-precise IEEE) on the position -> grid-coordinate function for an arbitrary float/double position in fixed dyadic and non-dyadic boxes; bounded symbolic execution (irsym+z3) of the real TbfTree constructor (sorter, group split, particle/cell containers, memory blocks): every placement of the '
        'particles on the half lattice of the bounded trees is a path; per path: each original index exactly once, leaf box = integer-exact oracle, data rows bit-identical '
        '(extra values symbolic 64-bit patterns), rhs and every multipole/local byte initialised and zero (uninitialised bytes are tracked), and all of it unchanged by execute()')


def run(ctx):
    q = ctx.quick()
    T = [('d1.h3.n3', D(1, 3, 3, 0, NEXTRA=2, SYMBOLIC_EXTRA=1), [-4, -1, 1, -1, 0, 0], 120, 'full half lattice, 2 extra symbolic data values'),
         ('d1.h4.n2.box1', D(1, 4, 2, 0, BOX=1, NEXTRA=1, SYMBOLIC_EXTRA=1), [-3, -1, 1, -1, 0, 0], 120, 'shifted box'),
         ('d2.h3.n2', D(2, 3, 2, 2, NEXTRA=1, SYMBOLIC_EXTRA=1), [-2, -1, 1, -1, 0, 0], 200, 'leaf x {lower face, centre, closed upper box face}'),
         ('d2.h2.n2.box1.float', D(2, 2, 2, 0, BOX=1, REALT='float', NEXTRA=1), [-3, -1, 1, -1, 0, 0], 120, 'float coordinates and data'),
         ('d3.h2.n2.box1', D(3, 2, 2, 0, BOX=1, NEXTRA=3, SYMBOLIC_EXTRA=1), [-2, 0, 1, -1, 0, 0], 200, 'per-dimension widths 2, 0.5, 8: full half lattice incl. all box faces'),
         ('d3.h3.n2.mixed', D(3, 3, 2, 1, DATAT='float', NEXTRA=2), [2, -1, 1, -1, 0, 0], 240, 'double coordinates stored as float data'),
         ('d2.h3.n2.float-coords-double-data', D(2, 3, 2, 1, REALT='float', DATAT='double', CONTT='double', NEXTRA=2), [-2, -1, 1, -1, 0, 0], 200, 'float coordinates, double data handed over in a double container: values not representable in float must survive'),
         ('d3.h12.n2.deep', D(3, 12, 2, 3, NEXTRA=1, SYMBOLIC_EXTRA=1), [-2, -1, 0, -1, 0, 0], 240, 'deep sparse tree: 33-bit leaf indices')]
    if not q:
        T += [('d1.h6.n3', D(1, 6, 3, 2, NEXTRA=2, SYMBOLIC_EXTRA=1), [-4, -1, 1, -1, 0, 0], 900, ''),
              ('d2.h3.n3.box1', D(2, 3, 3, 1, BOX=1, NEXTRA=1, SYMBOLIC_EXTRA=1), [-4, -1, 1, -1, 0, 0], 900, ''),
              ('d2.h4.n2.faces', D(2, 4, 2, 2, NEXTRA=1, SYMBOLIC_EXTRA=1), [-3, -1, 1, -1, 0, 0], 1200, ''),
              ('d3.h3.n2.faces.box1', D(3, 3, 2, 2, BOX=1, NEXTRA=1, SYMBOLIC_EXTRA=1), [-2, -1, 1, -1, 0, 0], 1800, ''),
              ('d3.h3.n3.float', D(3, 3, 3, 1, REALT='float', NEXTRA=2), [-2, -1, 0, -1, 0, 0], 1800, ''),
              ('d4.h2.n2', D(4, 2, 2, 0, BOX=1, NEXTRA=1, SYMBOLIC_EXTRA=1), [-3, -1, 1, -1, 0, 0], 900, '')]
    ctx.bounds.update(dict(trees='Dim 1-3 (4 thorough), heights 2-4 (6 thorough), 2-3 particles, block sizes 1..N+1, both grouping modes (forked)',
                           data='0-3 extra data values per particle, symbolic bit patterns when DataType == RealType; float/double; DataType != RealType',
                           boxes='unit box; box centre (-3.25, 7, 0.125, 2.5) widths (2, 0.5, 8, 3)',
                           outside='whole-tree runs use half-lattice positions of dyadic boxes; arbitrary (off-lattice) positions and non-dyadic boxes are covered for the binning function only (cbmc, fixed boxes listed in the queries); larger N'))
    # off-lattice positions: the binning function on an arbitrary float/double position inside the closed box (cbmc, bit-precise IEEE)
    K = []
    boxes = [('1.0', '0.5'), ('0.3', '0.1'), ('8.0', '0.125')] if q else [('1.0', '0.5'), ('0.3', '0.1'), ('8.0', '0.125'), ('3.0', '2.5'), ('0.7', '-11.3')]
    for real in ('float', 'double'):
        for h in ((1, 4, 7) if q else (1, 2, 3, 4, 5, 6, 7, 9)):
            for bw, bc in boxes:
                if real == 'double' and q and (h != 4): continue
                K.append(dict(name='bin.%s.h%d.w%s' % (real, h, bw), wrapper='w_c06_bin.cpp', wdefs=['REALT=%s' % real, 'HEIGHT=%d' % h, 'BOXW=%s' % bw, 'BOXC=%s' % bc],
                              harness='h_c06_bin.c', entry='h_c06_bin', hdefs=['REAL=%s' % real, 'HEIGHT=%d' % h, 'BOXW=%s' % bw], umax=40, timeout=300 if q else 1200, flavour='plain',
                              note='arbitrary %s position in the closed box of width %s centred at %s, height %d: coordinate in the grid and position inside the leaf bounds' % (real, bw, bc, h)))
    if getattr(ctx, 'only', None): K = [x for x in K if ctx.only in x['name']]
    e1.run_many(ctx, K, jobs=8)
    ctx.assumptions += ASSUME + ['binning queries: IR flavour NDEBUG (the library assertion on the relative position is the harness assumption), Dim 1 (the per-dimension computation is the same code for every dimension)']
    run_specs(ctx, 'w_tree.cpp', 'h_c06', T, expect_reach=(120, 121, 123, 124, 125))
    return finish(ctx, TEXT)
