"""C02 - every operator call receives geometrically consistent arguments."""
from .. import e1
from .treecommon import D, ASSUME, finish, run_specs

TEXT = ('bounded symbolic execution (irsym+z3) of the real executors with a geometry-checking kernel: on every operator call of every path (= occupancy pattern x block size x grouping '
        'mode of the bounded trees) the arguments are identified by address against a registry scanned from the tree and checked: particles inside the leaf box (integer-exact oracle), original '
        'indices and bit-identical data rows, children distinct/of the given parent/at level+1 with position code = true octant, sources at exactly the offset the position code '
        'decodes to (modulo the box when periodic), same level, well separated (transfer) or adjacent (direct), never an empty source list; encode/decode helpers by cbmc under C11')


def run(ctx):
    q = ctx.quick()
    g = [None, None, 1]
    T = [('seq.d1.h5.n2', D(1, 5, 2, 0, NEXTRA=1, SYMBOLIC_EXTRA=1), [-3, -1, 1, -2, 0, 0], 200, 'two translation levels, full half lattice'),
         ('seq.d1.h4.n3', D(1, 4, 3, 1), [-4, -1, 1, -2, 0, 0], 200, 'sibling sets cut by group boundaries'),
         ('seq.d2.h3.n2', D(2, 3, 2, 2, NEXTRA=1, SYMBOLIC_EXTRA=1), [-2, -1, 1, -1, 0, 0], 200, 'faces and the closed upper box face'),
         ('seq.d2.h4.n2', D(2, 4, 2, 1), [-2, -1, 1, -1, 0, 0], 240, ''),
         ('seq.d3.h3.n2', D(3, 3, 2, 1), [-2, -1, 1, -1, 0, 0], 240, ''),
         ('seq.d3.h2.n2.box1', D(3, 2, 2, 0, BOX=1), [2, 0, 1, -1, 0, 0], 200, 'per-dimension widths; every face/corner of the box (height 2: direct interactions only)')]
    if not q:
        T += [('seq.d1.h7.n3', D(1, 7, 3, 2), [-4, -1, 1, -2, 0, 0], 1200, ''), ('seq.d2.h5.n2', D(2, 5, 2, 1), [-3, -1, 1, -2, 0, 0], 1800, ''),
              ('seq.d3.h4.n2', D(3, 4, 2, 1), [-3, 0, 1, -1, 0, 0], 2400, ''), ('seq.d3.h3.n3', D(3, 3, 3, 1), [-2, -1, 1, -2, 0, 0], 2400, ''),
              ('seq.d4.h3.n2', D(4, 3, 2, 1), [-2, -1, 1, -1, 0, 0], 1800, ''), ('seq.d3.h3.n2.float', D(3, 3, 2, 1, REALT='float', BOX=1), [-3, -1, 1, -2, 0, 0], 900, '')]
    T.append(('seq.hilbert.d3.h4', D(3, 4, 2, 1, ORD=2), [2, 0, 1, -1, 0, 0], 90, 'Hilbert ordering, one translation level: the children handed to M2M/L2L must lie inside the parent (known finding F5)'))
    ctx.bounds.update(dict(trees='Dim 1-3 (4 thorough), heights 2-5 (7 thorough), 2-3 particles, block sizes 1..N+1, both grouping modes, upper level {2,0}',
                           executors='sequential (this module); target/source under C09, periodic + top tree under C10, OpenMP under C03 - each with the same checking kernel',
                           outside='Specx/StarPU executors (not buildable here); the Hilbert row is explored up to 3000 paths only (it exists to pin the known finding)'))
    ctx.assumptions += ASSUME
    S = [dict(name=n, wrapper='w_tree.cpp', defines=d, entry='h_c01', args=a, time_limit=tl, note=note, expect_reach=(22, 47), max_paths=(3000 if 'hilbert' in n else 10**9)) for (n, d, a, tl, note) in T]
    from .. import e2
    e2.run_configs(ctx, S)
    return finish(ctx, TEXT)
