"""C01 - every pair of distinct particles interacts exactly once (E2: irsym on TbfTree + TbfAlgorithm + weighted kernel)."""
from .. import e2

LEVEL_TEXT = ('bounded symbolic execution of the real TbfTree constructor and TbfAlgorithm::execute (clang IR, irsym + z3): every leaf-occupancy '
              'pattern of the bounded trees is a path (bounded-exhaustive forking), the per-particle payload is an independent 64-bit symbol, and '
              'the identities rhs_i = sum_{j!=i} w_j, multipole = sum of contained weights, local = sum over ancestors of interaction-list '
              'multipoles are proved for all payload values on every path')


def D(dim, h, n, pos, **kw):
    d = ['DIM=%d' % dim, 'HEIGHT=%d' % h, 'NPART=%d' % n, 'POSMODE=%d' % pos]
    for k, v in kw.items(): d.append('%s=%s' % (k, v))
    return d


def specs(ctx):
    q = ctx.quick()
    S = []
    def add(name, defines, args, tl, note=''):
        S.append(dict(name=name, wrapper='w_tree.cpp', defines=defines, entry='h_c01', args=args, time_limit=tl, note=note, expect_reach=(1, 3, 4)))
    # args: blockSize (<0: forked over 1..k), oneGroupPerParent (<0: forked), geometry checks, upper level (-1 default, -2 forked {default,0})
    add('d1.h1.n2', D(1, 1, 2, 0), [-3, -1, 0, -1, 0, 0], 60, 'height 1: no far field at all')
    add('d1.h2.n3', D(1, 2, 3, 0), [-4, -1, 0, -1, 0, 0], 60, 'height 2')
    add('d1.h3.n3', D(1, 3, 3, 0), [-4, -1, 0, -2, 0, 0], 120, 'full half lattice (faces, centres, closed upper face), upper level forked')
    add('d1.h5.n2', D(1, 5, 2, 0), [-3, -1, 0, -2, 0, 0], 150, 'two M2M/L2L levels with the default upper level')
    add('d1.h4.n3', D(1, 4, 3, 1), [-4, -1, 0, -2, 0, 0], 150, 'cell centres; sibling sets cut by group boundaries (block sizes 1..4)')
    add('d2.h3.n2', D(2, 3, 2, 1), [-3, -1, 0, -2, 0, 0], 150)
    add('d3.h3.n2', D(3, 3, 2, 1), [-2, -1, 0, -1, 0, 0], 240, 'every pair of leaves of the 4x4x4 grid')
    add('d2.h2.n2.box1', D(2, 2, 2, 0, BOX=1), [-3, -1, 0, -1, 0, 0], 60, 'shifted box with per-dimension widths')
    add('d4.h2.n2', D(4, 2, 2, 1), [-2, -1, 0, -1, 0, 0], 120, 'dimension 4: every pair of the 16 leaves')
    add('dense.d4.h2.n16', D(4, 2, 16, 4), [-17, -1, 1, 0, 0, 0], 120, 'dense: all 16 children of the root occupied (upper level 0: one translation level), block sizes 1..17')
    add('dense.d4.h2.n9', D(4, 2, 9, 4), [-10, -1, 0, 0, 0, 0], 120, 'nine of the sixteen siblings')
    add('dense.d3.h3.n12', D(3, 3, 12, 4), [-13, -1, 0, -2, 0, 0], 200, 'twelve leaves of the first row-major rows: full and partial sibling sets in one group')
    add('dense.d2.h4.n12', D(2, 4, 12, 4), [-13, -1, 1, -2, 0, 0], 200, '')
    add('d3.h12.n2.deep', D(3, 12, 2, 3), [2, 0, 0, -1, 0, 0], 240, 'deep sparse tree: ten translation levels, 33-bit indices')
    add('d1.h30.n2.deep', D(1, 30, 2, 3), [-2, -1, 0, -2, 0, 0], 240, 'Dim 1, height 30')
    if not q:
        add('d1.h6.n3', D(1, 6, 3, 2), [-4, -1, 0, -2, 0, 0], 900)
        add('d1.h7.n2', D(1, 7, 2, 0), [-3, -1, 0, -2, 0, 0], 600)
        add('d1.h5.n4', D(1, 5, 4, 1), [-5, -1, 0, -2, 0, 0], 900)
        add('d2.h3.n3', D(2, 3, 3, 1), [-4, -1, 0, -2, 0, 0], 900)
        add('d2.h3.n2.faces', D(2, 3, 2, 0), [-3, -1, 0, -2, 0, 0], 900)
        add('d2.h4.n2', D(2, 4, 2, 1), [-3, -1, 0, -2, 0, 0], 900)
        add('d2.h5.n2', D(2, 5, 2, 1), [-3, -1, 0, -1, 0, 0], 1500)
        add('d3.h3.n2.faces', D(3, 3, 2, 2), [-3, -1, 0, -2, 0, 0], 1500)
        add('d3.h3.n3', D(3, 3, 3, 1), [-2, -1, 0, -1, 0, 0], 1800)
        add('d3.h4.n2', D(3, 4, 2, 1), [-2, 0, 0, -1, 0, 0], 1800)
        add('d4.h2.n2', D(4, 2, 2, 1), [-3, -1, 0, -1, 0, 0], 300)
        add('d4.h3.n2', D(4, 3, 2, 1), [-2, -1, 0, -1, 0, 0], 1500)
        add('d3.h3.n2.box1.float', D(3, 3, 2, 1, BOX=1, REALT='float'), [-2, -1, 0, -1, 0, 0], 600)
    return S


def run(ctx):
    ctx.bounds.update(dict(trees='Dim 1-3 (4 thorough), heights 1-5 (7 thorough), 2-3 particles (4 thorough), block sizes 1..N+1 and both grouping modes forked inside the harness, upper level {2,0}',
                           positions='per particle and dimension: half-lattice point of the leaf grid (cell faces, centres, closed upper box face) or cell centres, as named per query',
                           symbolic='one independent 64-bit payload per particle (solver-quantified); leaf occupancy, block size, grouping mode, upper level (forked)',
                           outside='larger trees / more particles; automatic block size (C08); floating-point kernels'))
    ctx.assumptions += ['clang 14 -O1 IR of the headers with assertions enabled; interpreter validated per query against the g++ build on seeded concrete runs',
                        'operator new never fails; getenv returns null', 'exchangeable particles explored in non-decreasing position order (symmetry cut)']
    e2.run_configs(ctx, specs(ctx))
    return finish(ctx)


def finish(ctx):
    return ctx.finish('model_checking', LEVEL_TEXT,
                      'one query per bounded tree family; every path = one (block size, grouping mode, upper level, occupancy pattern); a query is non-trivial when >= 1 path '
                      'completed with all assertions proved; distinct = distinct (defines, entry, args)',
                      exhaustive=not getattr(ctx, 'partial', 0))
