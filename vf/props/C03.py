"""C03 - task-parallel executors equal the sequential one under every legal schedule (OpenMP executors, clang lowering, mock runtime)."""
from .treecommon import D, ASSUME, finish
from .. import e2
from .C09 import DT

TEXT = ('bounded symbolic execution (irsym+z3) of TbfOpenmpAlgorithm as lowered by clang (-fopenmp -fopenmp-version=45) on top of a mock of the nine libomp entry points it uses: per tree shape the task '
        'graph is run (0) undeferred, (1) fully deferred to the final taskwait in submission order, (2) fully deferred, latest ready task first, with worker ids all-0 / round-robin / reversed over 4 threads. '
        'Decided per path: every access of a deferred task to a variable whose lifetime has ended (dead creator frame or closure) is a violation; the recorded read/write footprints of every pair of tasks that the '
        'declared depend clauses neither order nor make mutually exclusive must not conflict (data-race freedom => all linear extensions equivalent); every multipole, local and rhs equals the sequential '
        'executor\'s as forms in the symbolic payload; the geometry checks of C02 on every operator call')

OMP = dict(hooks='vf.omp_mock', extra_ir=('-fopenmp', '-fopenmp-version=45'), extra_native=('-fopenmp',))
OMP50 = dict(hooks='vf.omp_mock', extra_ir=('-fopenmp', '-fopenmp-version=50'), extra_native=('-fopenmp',))


def run(ctx):
    q = ctx.quick()
    S = []
    def add(name, defines, args, tl, note='', threads=4, entry='h_c03', wrapper='w_omp.cpp', reach=(600, 601, 602), omp=OMP):
        S.append(dict(name=name, wrapper=wrapper, defines=defines, entry=entry, args=args, time_limit=tl, note=note, expect_reach=reach,
                      hook_opts=dict(omp_threads=threads, no_native_replay=True), diff=0, **omp))
    add('omp.d1.h5.n2', D(1, 5, 2, 1), [-2, -1, 1, -2, 0, 0], 240, 'two translation levels; sibling sets cut by group boundaries; 3 schedules x block size x mode x upper level')
    add('omp.d1.h4.n2.faces', D(1, 4, 2, 0), [-2, -1, 1, -1, 0, 0], 200, '')
    add('omp.d2.h3.n3', D(2, 3, 3, 1), [-2, -1, 1, -1, 0, 0], 300, '')
    add('omp.d2.h4.n2', D(2, 4, 2, 1), [2, -1, 0, -1, 0, 0], 300, '')
    add('omp.d3.h3.n2', D(3, 3, 2, 1), [2, 0, 1, -1, 0, 0], 300, '')
    add('omp-tsm.d1.h4.s2.t1', DT(1, 4, 2, 1, 1), [-2, -1, 0, -2, 0, 0], 240, 'target/source OpenMP executor vs the sequential target/source executor', entry='h_c03_tsm', wrapper='w_omp_tsm.cpp', reach=(620, 621, 622))
    add('omp-tsm.d2.h3.s1.t1', DT(2, 3, 1, 1, 1), [-2, -1, 0, -1, 0, 0], 240, '', entry='h_c03_tsm', wrapper='w_omp_tsm.cpp', reach=(620, 621, 622))
    add('omp50.d1.h4.n3', D(1, 4, 3, 1), [-2, -1, 1, -2, 0, 0], 240, 'OpenMP 5.0 lowering: commute = mutexinoutset (tasks on the same buffer mutually exclusive, unordered)', omp=OMP50)
    add('omp50.d2.h3.n2', D(2, 3, 2, 1), [-2, -1, 1, -1, 0, 0], 240, '', omp=OMP50)
    if not q:
        add('omp.d1.h6.n4', D(1, 6, 4, 1), [-4, -1, 1, -2, 0, 0], 2400, '', threads=16)
        add('omp.d2.h4.n3', D(2, 4, 3, 1), [-3, -1, 1, -2, 0, 0], 3000, '')
        add('omp.d2.h5.n2', D(2, 5, 2, 1), [-2, -1, 1, -1, 0, 0], 2400, '', threads=16)
        add('omp.d3.h3.n3', D(3, 3, 3, 1), [-2, -1, 1, -1, 0, 0], 3000, '')
        add('omp.d3.h4.n2', D(3, 4, 2, 1), [-2, 0, 1, -1, 0, 0], 3000, '', threads=2)
    ctx.bounds.update(dict(trees='Dim 1-3, heights 3-5 (6 thorough), 2-3 particles (4 thorough), block sizes 1..3, both grouping modes, upper level {2,0}', threads='4 (2 and 16 in the thorough tier)',
                           schedules='undeferred; fully deferred FIFO (+ footprint race check, which by data-race freedom covers every linear extension); fully deferred latest-ready-first',
                           outside='g++/libgomp lowering (GCC passes lambda closures by reference into tasks created inside TbfMapIndexesAndBlocks callbacks: that dead-closure access is NOT visible in clang\'s lowering, which '
                                   'captures `this` by value); Specx and StarPU executors (headers absent: not buildable, not encodable)'))
    ctx.assumptions += ASSUME + ['mock runtime implements the OpenMP 4.5 dependence rules (in / out / inout per base address, submission order); team = 1 master + worker ids',
                                 'no native replay: the verdict on a schedule is the symbolic run\'s (libgomp cannot be forced into a given schedule here)']
    e2.run_configs(ctx, S)
    return finish(ctx, TEXT, 'one query per bounded tree family; every path = one (schedule, block size, grouping mode, upper level, occupancy pattern)')
