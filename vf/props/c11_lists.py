"""C11 list builders (E2): bounded-exhaustive execution of the real IR against the definition (every cell of the level forked)"""
from .. import e2


def DL(dim, level, ordn, **kw):
    d = ['DIM=%d' % dim, 'HEIGHT=%d' % (level + 1), 'ORD=%d' % ordn, 'POSMODE=1']
    for k, v in kw.items(): d.append('%s=%s' % (k, v))
    return d


def run(ctx):
    q = ctx.quick()
    S = []
    def add(name, defines, entry, args, tl, note, reach):
        S.append(dict(name='lists.' + name, wrapper='w_c11_lists.cpp', defines=defines, entry=entry, args=args, time_limit=tl, note=note, expect_reach=reach))
    per_index = [(1, 6), (2, 3), (3, 3), (4, 1)] if q else [(1, 10), (2, 5), (3, 4), (4, 2), (4, 3)]
    for ordn, on in ((0, 'morton'), (1, 'periodic')):
        for dim, lmax in per_index:
            for level in range(0, lmax + 1):
                if q and level < lmax - 1 and level > 2: continue
                add('index.%s.d%d.l%d' % (on, dim, level), DL(dim, level, ordn), 'h_c11_index', [level, 0, 0, 0, 0, 0], 300 if q else 2400,
                    'getInteractionListForIndex / getNeighborListForIndex (with and without the upper-half filter) for every cell of the level: multiset equality with the definition', (700, 701, 702))
    groups = [(1, 3, 3), (2, 2, 2), (3, 2, 1), (3, 1, 2), (4, 1, 1)] if q else [(1, 4, 3), (2, 3, 3), (3, 2, 3), (4, 1, 3), (4, 2, 2)]
    for ordn, on in ((0, 'morton'), (1, 'periodic')):
        for dim, level, nc in groups:
            add('group.%s.d%d.l%d.c%d' % (on, dim, level, nc), DL(dim, level, ordn), 'h_c11_group', [level, nc, 0, 0, 0, 0], 400 if q else 3000,
                'getInteractionListForBlock / getNeighborListForBlock / getSelfListForBlock on real containers of %d cells: every increasing index tuple, both filters forked' % nc, (703, 705, 707))
    ctx.bounds.update(dict(list_builders='per-index: every cell of every level up to the bound per dimension (Dim 1: 6, Dim 2: 3, Dim 3: 3, Dim 4: 1; thorough 10/5/4/3); per-group: every increasing tuple of 1-3 cell indices at small levels; '
                                         'Morton and periodic Morton; upper-half and self-inclusion filters forked. The solver decides nothing here: it is bounded-exhaustive execution of the real IR with a definition-based oracle (set equality, not offsets in range)'))
    e2.run_configs(ctx, S)
