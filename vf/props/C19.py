"""C19 - every documented template configuration builds and satisfies the core guarantees."""
import os, subprocess, time
from concurrent.futures import ThreadPoolExecutor
from .treecommon import D, ASSUME, finish
from .. import e2
from ..common import BuildError

TEXT = ('(1) encoding step = compile step: for every configuration of the cross product Dim {1,2,3,4} x {float,double} x {Morton, periodic Morton, Hilbert(3D)} x {data type = / != coordinate type} x {1, 0 result values} '
        'the harness translation units (tree constructor with explicit and automatic block size, rebuild, bulk export, sequential / target-source / OpenMP executors, counters, periodic top tree) must produce clang IR - a front-end '
        'error is the violation, the diagnostic is the replay artefact (decided by the compiler, not by a solver); (2) behaviour: the C01 (exactly once), C06 (construction) and C13 (rebuild) assertions by symbolic execution '
        '(irsym+z3) at small bounds for every dimension, both coordinate types, the periodic ordering (through the periodic sequence) and the Hilbert ordering, with explicit and automatic block size')


def compile_matrix(ctx):
    jobs = []
    q = ctx.quick()
    for dim in (1, 2, 3, 4):
        for real in ('double', 'float'):
            for ordn in (0, 1, 2):
                if ordn == 2 and dim != 3: continue
                variants = [dict(), dict(DATAT='float' if real == 'double' else 'double', NEXTRA=1), dict(NRHS=0)]
                if q and not (dim == 3 or real == 'double'): variants = variants[:1]
                for v in variants:
                    base = dict(REALT=real, ORD=ordn); base.update(v)
                    for wrapper, extra in (('w_tree.cpp', ()), ('w_tsm.cpp', ()), ('w_omp.cpp', ('-fopenmp', '-fopenmp-version=45')), ('w_omp.cpp', ('-fopenmp', '-fopenmp-version=50')), ('w_periodic.cpp', ())):
                        if wrapper == 'w_periodic.cpp' and ordn != 1: continue
                        if wrapper in ('w_tsm.cpp', 'w_omp.cpp') and (v or (q and dim in (1, 4) and real == 'float')): continue
                        if wrapper == 'w_omp.cpp' and ordn == 1: continue
                        b = dict(base)
                        if wrapper == 'w_periodic.cpp': b.pop('ORD')
                        if wrapper == 'w_tsm.cpp': defs = ['DIM=%d' % dim, 'HEIGHT=3', 'NS=1', 'NT=1', 'POSMODE=1'] + ['%s=%s' % kv for kv in b.items()]
                        else: defs = D(dim, 3, 2, 1, **b)
                        jobs.append((wrapper, defs, extra))
    t0 = time.time(); fails = []
    def one(j):
        wrapper, defs, extra = j
        try:
            ctx.build_ir(wrapper, defs, 'asserts', extra=extra); return None
        except BuildError as e:
            return (wrapper, defs, e.stderr)
    with ThreadPoolExecutor(14) as ex:
        res = list(ex.map(one, jobs))
    nbad = 0
    for r in res:
        if r is None: continue
        wrapper, defs, err = r; nbad += 1
        first = [l for l in err.split('\n') if 'error' in l][:2]
        key = 'compile:%s:%s' % (wrapper, ','.join(d for d in defs if d.split('=')[0] in ('DIM', 'REALT', 'ORD', 'DATAT', 'NRHS')))
        fn = ctx.replay_file(key, dict(engine='compile', wrapper=wrapper, defines=defs, diagnostic=err[-3000:]))
        ctx.violation(key, 'configuration does not compile: %s %s: %s' % (wrapper, defs, ' | '.join(first)[:400]), fn)
    ctx.counters['paths'] += len(jobs)
    ctx.queries.append(dict(name='compile-matrix', engine='clang front end (the encoding step)', translation_units=len(jobs), failed=nbad, wall_s=round(time.time() - t0, 1),
                            note='Dim 1-4 x float/double x Morton/periodic/Hilbert(3D) x {DataType = / != RealType, NRHS 1/0} x {single tree (ctor explicit+automatic block size, rebuild, export, counters), target/source, OpenMP, periodic top tree}'))
    ctx.samples.append(dict(query='compile-matrix', example=' '.join(jobs[0][1]), translation_units=len(jobs)))


def run(ctx):
    q = ctx.quick()
    only = getattr(ctx, 'only', None)
    if not only or 'compile' in only: compile_matrix(ctx)
    S = []
    def add(name, wrapper, defines, entry, args, tl, note='', reach=()):
        S.append(dict(name=name, wrapper=wrapper, defines=defines, entry=entry, args=args, time_limit=tl, note=note, expect_reach=reach))
    for dim, h, real, what in ((1, 4, 'float', 'ear'), (2, 3, 'double', 'eac'), (4, 2, 'double', 'eacr'), (4, 2, 'float', 'e'), (3, 3, 'float', 'e')):
        pm = 1
        if 'e' in what: add('exact-once.d%d.%s' % (dim, real), 'w_tree.cpp', D(dim, h, 2, pm, REALT=real), 'h_c01', [-2, -1, 1, -1, 0, 0], 200, 'C01 + C02 assertions', (1, 3, 4))
        if 'a' in what: add('exact-once.auto.d%d.%s' % (dim, real), 'w_tree.cpp', D(dim, h, 2, pm, REALT=real), 'h_c01', [-100, 0, 0, -1, 0, 0], 200, 'automatic block size', (1,))
        if 'c' in what: add('construct.d%d.%s' % (dim, real), 'w_tree.cpp', D(dim, h, 2, pm, REALT=real, NEXTRA=1), 'h_c06', [-2, -1, 1, -1, 0, 0], 200, 'C06 assertions', (120, 121))
        if 'r' in what: add('rebuild.d%d.%s' % (dim, real), 'w_tree.cpp', D(dim, h, 2, pm, REALT=real), 'h_c13', [2, -1, 1, -1, 1, 0], 240, 'C13 assertions', (180, 183))
    add('mixed-types.d3', 'w_tree.cpp', D(3, 2, 2, 1, DATAT='float', NEXTRA=1), 'h_c06', [-2, -1, 1, -1, 0, 0], 200, 'double coordinates stored as float', (120,))
    add('zero-rhs.d2', 'w_tree.cpp', D(2, 3, 2, 1, NRHS=0), 'h_c06', [-2, -1, 1, -1, 0, 0], 200, 'no result values', (120,))
    add('periodic.d1', 'w_periodic.cpp', D(1, 3, 2, 1), 'h_c10', [-2, -1, -9, 0, 0, 0], 200, 'periodic ordering, extra levels -1..0', (500,))
    add('periodic.d2.float', 'w_periodic.cpp', D(2, 3, 2, 1, REALT='float'), 'h_c10', [2, 0, -9, 0, 0, 0], 240, '', (500,))
    add('periodic-rebuild.d2', 'w_tree.cpp', D(2, 3, 2, 1, ORD=1), 'h_c07', [-2, -1, 1, -1, 0, 0], 200, 'rebuild() with the periodic ordering (structure assertions before and after)', (100, 102))
    add('hilbert.d3.h3', 'w_tree.cpp', D(3, 3, 2, 1, ORD=2), 'h_c01', [-2, 0, 0, -1, 0, 0], 240, 'Hilbert ordering: exactly-once with the weighted kernel', (1,))
    add('hilbert-rebuild.d3', 'w_tree.cpp', D(3, 3, 2, 1, ORD=2), 'h_c17', [2, 0, 1, -1, 0, 0], 240, 'Hilbert ordering: build, execute, rebuild, export', (150,))
    if not q:
        add('exact-once.d4.h3', 'w_tree.cpp', D(4, 3, 2, 1), 'h_c01', [-2, -1, 1, -1, 0, 0], 2400, '', (1,))
        add('hilbert.d3.h4', 'w_tree.cpp', D(3, 4, 2, 1, ORD=2), 'h_c01', [-2, -1, 0, -1, 0, 0], 2400, '', (1,))
        add('tsm.d4', 'w_tsm.cpp', ['DIM=4', 'HEIGHT=2', 'NS=1', 'NT=1', 'POSMODE=1'], 'h_c09', [-100, -1, 1, -1, 0, 0], 900, '', (400,))
    ctx.bounds.update(dict(compile='every configuration listed in the evidence query compile-matrix', behaviour='Dim 1-4, heights 2-4, 2 particles, block sizes 1..2 and automatic, both grouping modes',
                           outside='build configurations that enable several task runtimes at once (Specx and StarPU headers are absent: the include-guard collision the property mentions cannot be exercised here)'))
    ctx.assumptions += ASSUME + ['compile half: decided by clang 14 (the IR the other checks verify) - g++ front-end differences are outside']
    e2.run_configs(ctx, S)
    return ctx.finish('other', TEXT, 'one compile query (all configurations) + one irsym query per behavioural configuration', exhaustive=not getattr(ctx, 'partial', 0))
