"""C15 - no out-of-bounds, use-after-lifetime or undefined behaviour on any valid input."""
from .treecommon import D, ASSUME
from .. import e1, e2
from .C03 import OMP
from .C09 import DT

TEXT = ('the memory model of the symbolic executor (irsym) is the checker: every load/store/memcpy is checked against object bounds, object lifetime (freed heap block, returned stack frame), initialisation of '
        'bytes that reach a branch or an assertion, and the alignment the IR states; every operator new must be matched by a delete when the harness returns; operator new returns blocks aligned to 16 bytes only. '
        'The harnesses are compiled in two flavours: assertions enabled + UBSan traps (signed overflow, shift, division by zero, array bounds, VLA bound, null) as proof obligations, and NDEBUG as shipped (where a '
        'tripped precondition shows up as the out-of-bounds access or leak it guards). Covered: build/execute/rebuild/export/destroy on the input spaces of C01, C09, C10, C13, C14, the OpenMP executor under the '
        'deferred schedules of C03, and (cbmc, full symbolic width) the leaf index and lookup kernels')


def run(ctx):
    q = ctx.quick()
    S = []
    def add(name, wrapper, defines, entry, args, tl, flavour, note='', **kw):
        S.append(dict(name=name, wrapper=wrapper, defines=defines, entry=entry, args=args, time_limit=tl, flavour=flavour, note=note, **kw))
    add('seq.ubsan.d1.h5.n3', 'w_tree.cpp', D(1, 5, 3, 1), 'h_c01', [-2, -1, 1, -1, 0, 0], 200, 'ubsan', 'build + execute + destroy')
    add('seq.ndebug.d2.h3.n3', 'w_tree.cpp', D(2, 3, 3, 1), 'h_c01', [-3, -1, 0, -1, 0, 0], 240, 'plain', 'as shipped (NDEBUG): bounds / lifetime / leak only')
    add('seq.ubsan.d3.h3.n2', 'w_tree.cpp', D(3, 3, 2, 1), 'h_c01', [2, -1, 1, -1, 0, 0], 240, 'ubsan')
    add('rebuild.ubsan.d1.h4.n3', 'w_tree.cpp', D(1, 4, 3, 1), 'h_c13', [-3, -1, 1, -1, 1, 0], 240, 'ubsan', 'move + rebuild + execute')
    add('export.ndebug.d2.h3.n2', 'w_tree.cpp', D(2, 3, 2, 1, NEXTRA=2, NRHS=3), 'h_c17', [-2, -1, 1, -1, 0, 0], 200, 'plain', 'bulk export writes stay inside the returned arrays')
    add('bytecopy.ubsan.d2.h3.n2', 'w_tree.cpp', D(2, 3, 2, 1), 'h_c14', [-2, -1, 0, -1, 0, 0], 200, 'ubsan', 'raw-memory views of byte copies')
    add('tsm.ubsan.d2.h3', 'w_tsm.cpp', DT(2, 3, 2, 1, 1), 'h_c09', [-2, -1, 1, -1, 0, 0], 240, 'ubsan')
    add('periodic.ubsan.d2.h3', 'w_periodic.cpp', D(2, 3, 2, 1), 'h_c10', [-2, -1, -9, 0, 1, 0], 240, 'ubsan', 'periodic sequence, shifter allocations freed')
    add('memblock.ubsan.tuple0', 'w_memblock.cpp', ['TUPLE=0'], 'h_memblock', [0, 1, 0, 0, 0, 0], 200, 'ubsan', max_paths=3000)
    add('deep.ubsan.d1.h52.n2', 'w_tree.cpp', D(1, 52, 2, 3), 'h_c06', [-2, -1, 1, -1, 0, 0], 200, 'ubsan', 'Dim 1, height 52: the largest height at which every half-lattice position is exactly representable in double')
    add('deep.ubsan.d2.h32.n2', 'w_tree.cpp', D(2, 32, 2, 3), 'h_c06', [2, -1, 1, -1, 0, 0], 200, 'ubsan', 'Dim 2 at the largest height whose indices fit 62 bits')
    add('empty.ubsan.d2.h3', 'w_tree.cpp', D(2, 3, 1, 1), 'h_empty', [-2, -1, 0, -2, 0, 0], 60, 'ubsan', 'tree built from an empty particle set: build, query, execute, rebuild, export, destroy')
    add('empty.tsm.ubsan.d2.h3', 'w_tsm.cpp', DT(2, 3, 1, 1, 1), 'h_tsm_empty', [-2, -1, 0, -2, 0, 0], 120, 'ubsan', 'target/source mode with no sources, no targets, or neither')
    add('omp.ubsan.d1.h4.n3', 'w_omp.cpp', D(1, 4, 3, 1), 'h_c03', [-2, -1, 1, -1, 0, 0], 240, 'ubsan', 'OpenMP executor under undeferred / deferred schedules: heap-allocated index vectors freed exactly once, no dead-frame access',
        hook_opts=dict(omp_threads=4, no_native_replay=True), diff=0, **OMP)
    if not q:
        add('seq.ubsan.d2.h4.n3', 'w_tree.cpp', D(2, 4, 3, 1), 'h_c01', [-3, -1, 1, -2, 0, 0], 2400, 'ubsan')
        add('seq.ndebug.d3.h3.n3', 'w_tree.cpp', D(3, 3, 3, 1), 'h_c01', [-3, -1, 0, -1, 0, 0], 2400, 'plain')
        add('seq.ubsan.d4.h2.n3', 'w_tree.cpp', D(4, 2, 3, 1), 'h_c01', [-3, -1, 1, -1, 0, 0], 1200, 'ubsan')
        add('rebuild.ndebug.d2.h3.n2', 'w_tree.cpp', D(2, 3, 2, 1), 'h_c13', [-2, -1, 2, -1, 1, 0], 2400, 'plain')
        add('omp.ubsan.d2.h4.n2', 'w_omp.cpp', D(2, 4, 2, 1), 'h_c03', [-2, -1, 1, -1, 0, 0], 2400, 'ubsan', hook_opts=dict(omp_threads=16, no_native_replay=True), diff=0, **OMP)
        add('tsm.ndebug.d3.h3', 'w_tsm.cpp', DT(3, 3, 1, 1, 1), 'h_c09', [-2, -1, 1, -1, 0, 0], 1800, 'plain')
    K = [dict(name='e1.index.morton.dim3', wrapper='w_c11_leaf.cpp', wdefs=['DIM=3', 'ORD=0', 'HEIGHT=5'], harness='h_c11_leaf.c', entry='h_c11_grid',
              hdefs=['DIM=3', 'ORD=0', 'LMIN=0', 'LMAX=20', 'CHECK_CONTAINMENT', 'CHECK_OCTANT'], umax=130, timeout=900, note='no shift/overflow trap at any level up to 20 (all 60-bit indices)'),
         dict(name='e1.index.morton.dim2', wrapper='w_c11_leaf.cpp', wdefs=['DIM=2', 'ORD=0', 'HEIGHT=5'], harness='h_c11_leaf.c', entry='h_c11_grid',
              hdefs=['DIM=2', 'ORD=0', 'LMIN=0', 'LMAX=31', 'CHECK_CONTAINMENT', 'CHECK_OCTANT'], umax=130, timeout=900),
         dict(name='e1.lookup.cells', wrapper='w_c16_lookup.cpp', wdefs=['DIM=3'], harness='h_c16_lookup.c', entry='h_c16_cells', hdefs=['KMAX=8'], umax=40, timeout=900)]
    if getattr(ctx, 'only', None): K = [x for x in K if ctx.only in x['name']]
    ctx.bounds.update(dict(spaces='the bounded trees of C01/C09/C10/C13/C14 (Dim 1-3, heights 3-5, 2-3 particles, block sizes 1..3, both modes), OpenMP schedules of C03 with 4 threads',
                           outside='rotation/uniform kernels, Specx/StarPU executors, g++-specific lowering of the OpenMP tasks; pointer-overflow obligations that no native run can confirm are listed separately, never as violations'))
    ctx.assumptions += ASSUME + ['uninitialised-read and misalignment findings cannot be confirmed by the sanitizers used for replay and are reported from the symbolic run']
    e1.run_many(ctx, K, jobs=3)
    e2.run_configs(ctx, S)
    return ctx.finish('model_checking', TEXT, 'one query per (harness, IR flavour, bounded tree family); every path = one input/configuration/schedule; every memory access on every path is an obligation',
                      exhaustive=not getattr(ctx, 'partial', 0))
