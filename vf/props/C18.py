"""C18 - interaction counters report the true number of elementary interactions."""
from .treecommon import D, ASSUME, finish, run_specs

TEXT = ('bounded symbolic execution (irsym+z3) of TbfInteractionCounter<kernel> under the sequential executor: results identical to the unwrapped kernel (as forms in the symbolic payload) and the merged '
        'counters (documented merge: ReduceType::Reduce over applyToAllKernels) equal an oracle computed from the leaf index set only: leaves, parent-child links, transfer pairs of existing cells, '
        'n_a*n_b over adjacent leaf pairs, n(n-1) in-leaf - for every occupancy pattern x block size x grouping mode x upper level; counters of partial runs (flag subsets) move only for the operators that ran; '
        'Counters::Reduce proved to be the field-wise sum for arbitrary (symbolic 64-bit) per-worker values under forked merge orders; the increment of every operator call proved for symbolic call sizes up to 2^31 (1 / list length / |A|*|B| / n(n-1), 64-bit arithmetic)')


def run(ctx):
    q = ctx.quick()
    T = [('d1.h5.n2', D(1, 5, 2, 0), [-2, -1, 0, -2, 0, 0], 200, ''), ('d2.h3.n3', D(2, 3, 3, 1), [2, -1, 0, -1, 0, 0], 240, ''),
         ('d3.h2.n3', D(3, 2, 3, 1), [-2, -1, 0, -1, 0, 0], 240, ''), ('d1.h3.n3.faces', D(1, 3, 3, 0), [-2, -1, 0, -2, 0, 0], 120, 'coincident particles and faces')]
    if not q:
        T += [('d2.h4.n3', D(2, 4, 3, 1), [-4, -1, 0, -2, 0, 0], 2400, ''), ('d3.h3.n3', D(3, 3, 3, 1), [-3, -1, 0, -1, 0, 0], 2400, ''), ('d1.h6.n4', D(1, 6, 4, 1), [-5, -1, 0, -2, 0, 0], 1800, '')]
    ctx.bounds.update(dict(trees='Dim 1-3, heights 3-5 (6 thorough), 2-3 particles (4 thorough), block sizes 1..N+1, both modes, upper level {2,0}',
                           executors='sequential executor; OpenMP executor with per-worker counter kernels under the mock runtime of C03 (4 threads, three schedules / worker-id policies)',
                           outside='the counter cannot be used with the target/source executor (its P2PTsm does not instantiate) - see DESIGN.md section 8 F8'))
    ctx.assumptions += ASSUME
    run_specs(ctx, 'w_tree.cpp', 'h_c18', T, expect_reach=(200, 201, 202, 205, 206, 207, 208), reserve=600)
    run_specs(ctx, 'w_tree.cpp', 'h_c18_reduce', [('reduce.symbolic', D(1, 2, 2, 1), [0, 0, 0, 0, 0, 0], 60, 'Counters::Reduce with 2-4 workers, every counter field an independent 64-bit symbol, forked merge orders')], expect_reach=(209, 210))
    run_specs(ctx, 'w_tree.cpp', 'h_c18_calls', [('calls.symbolic', D(1, 2, 2, 1), [0, 0, 0, 0, 0, 0], 120, 'every operator call of the counter with symbolic 64-bit sizes (<= 2^31 per list / leaf): increment, other counters untouched, call forwarded')],
              expect_reach=(215, 216, 217))
    from .C03 import OMP
    from .. import e2
    e2.run_configs(ctx, [dict(name='omp.d1.h4.n3', wrapper='w_omp.cpp', defines=D(1, 4, 3, 1), entry='h_c18_omp', args=[-2, -1, 0, -1, 0, 0], time_limit=240,
                               note='per-worker counter kernels under the OpenMP executor (mock runtime, 3 schedules, worker ids all-0 / round robin / reversed over 4 threads), merged as documented',
                               expect_reach=(610, 611), hook_opts=dict(omp_threads=4, no_native_replay=True), diff=0, **OMP),
                          dict(name='omp.d2.h3.n2', wrapper='w_omp.cpp', defines=D(2, 3, 2, 1), entry='h_c18_omp', args=[2, -1, 0, -1, 0, 0], time_limit=240, note='',
                               expect_reach=(610, 611), hook_opts=dict(omp_threads=4, no_native_replay=True), diff=0, **OMP)])
    return finish(ctx, TEXT)
