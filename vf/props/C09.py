"""C09 - target/source mode: each target gets each source exactly once, nothing else."""
from .treecommon import D, ASSUME, finish
from .. import e2

TEXT = ('bounded symbolic execution (irsym+z3) of TbfTreeTsm + TbfAlgorithmTsm with a weighted kernel: sources and targets are placed independently (every pair of occupancy patterns of the bounded trees: disjoint, '
        'overlapping, identical positions, one side in one leaf, missing source cells under target cells and vice versa); proved on every path for all payload values: target rhs = sum of all source weights (no target '
        'symbol - each target carries one - ever appears), source multipoles / target locals equal their definitions, P2P/P2PInner are never called, source trees carry no locals / target trees no multipoles, source '
        'data untouched; geometry of every operator call; C07 structure and C16 lookups on both trees')


def DT(dim, h, ns, nt, pos, **kw):
    d = ['DIM=%d' % dim, 'HEIGHT=%d' % h, 'NS=%d' % ns, 'NT=%d' % nt, 'POSMODE=%d' % pos]
    for k, v in kw.items(): d.append('%s=%s' % (k, v))
    return d


def run(ctx):
    q = ctx.quick()
    S = []
    def add(name, defines, args, tl, note=''):
        S.append(dict(name=name, wrapper='w_tsm.cpp', defines=defines, entry='h_c09', args=args, time_limit=tl, note=note, expect_reach=(400, 401, 402, 403)))
    add('d1.h4.s2.t2', DT(1, 4, 2, 2, 1), [-2, -1, 1, -2, 0, 0], 200, 'all pairs of (2 sources, 2 targets) placements, block sizes 1..3, both modes, upper level forked')
    add('d1.h4.s1.t3', DT(1, 4, 1, 3, 1), [-2, -1, 1, -1, 0, 0], 200, 'three targets: target groups that enter an upper group in the middle, with empty cells in between')
    add('d1.h3.s2.t1.faces', DT(1, 3, 2, 1, 0), [-3, -1, 1, -1, 0, 0], 120, 'half lattice incl. faces; a single target')
    add('export-rebuild.d2.h3.s1.t2', DT(2, 3, 1, 2, 1, NEXTRA=1, NRHS=2), [2, -1, 1, -1, 1, 0], 240, 'bulk export of both trees, rebuild of the pair, second execute (C17/C13 on target/source trees)')
    add('d2.h3.s2.t1', DT(2, 3, 2, 1, 1), [-2, -1, 1, -1, 0, 0], 240, '')
    add('d2.h3.s1.t2', DT(2, 3, 1, 2, 1), [-2, -1, 1, -1, 0, 0], 240, 'a single source')
    add('d3.h3.s1.t1', DT(3, 3, 1, 1, 1), [1, 0, 1, -1, 0, 0], 240, 'every (source leaf, target leaf) pair of the 4x4x4 grid')
    add('auto.d2.h3.s1.t1', DT(2, 3, 1, 1, 1), [-100, -1, 1, -1, 0, 0], 240, 'automatic block size (EstimateTsm), hardware threads forked over {1,2,16}')
    if not q:
        add('d1.h5.s2.t2', DT(1, 5, 2, 2, 1), [-3, -1, 1, -2, 0, 0], 1800, '')
        add('d1.h4.s3.t2', DT(1, 4, 3, 2, 1), [-4, -1, 1, -2, 0, 0], 2400, '')
        add('d2.h3.s2.t2', DT(2, 3, 2, 2, 1), [-3, -1, 1, -1, 0, 0], 3000, '')
        add('d2.h4.s1.t1', DT(2, 4, 1, 1, 1), [1, -1, 1, -2, 0, 0], 1200, '')
        add('d3.h3.s2.t1', DT(3, 3, 2, 1, 1), [-2, -1, 1, -1, 0, 0], 3000, '')
        add('d3.h4.s1.t1', DT(3, 4, 1, 1, 1), [1, 0, 1, -1, 0, 0], 3000, '')
    ctx.bounds.update(dict(trees='Dim 1-3, heights 3-4 (5 thorough), 1-2 sources (3 thorough) x 1-2 targets, block sizes 1..3, both grouping modes, upper level {2,0}',
                           executors='sequential target/source executor; the OpenMP variant is covered (lifetimes, dependencies, results) under C03',
                           outside='the TBFMM_BLOCK_SIZE environment override; larger particle sets'))
    ctx.assumptions += ASSUME
    e2.run_configs(ctx, S)
    return finish(ctx, TEXT)
