"""C12 - operator flags compose: staged runs equal a full run, write only their outputs."""
from .treecommon import D, ASSUME, finish
from .. import e2

TEXT = ('bounded symbolic execution (irsym+z3) of execute(tree, flags): (a) every partition of P2M<M2M<M2L<L2L<L2P into consecutive calls with P2P merged into any call or run on its own at any '
        'position (112 call sequences, forked) leaves every multipole/local/rhs equal, as forms in the symbolic payload, to one full run; (b) every single flag on a tree with non-trivial buffers: '
        'only that operator is logged and only its own outputs change; (c) every upper working level 0..H: no M2M/M2L/L2L is applied above it and P2M/L2P run iff H > upper')


def run(ctx):
    q = ctx.quick()
    S = []
    def add(name, defines, args, tl, note, reach):
        S.append(dict(name=name, wrapper='w_tree.cpp', defines=defines, entry='h_c12', args=args, time_limit=tl, note=note, expect_reach=reach))
    add('staged.d1.h4.n2', D(1, 4, 2, 1), [-2, -1, 0, -1, 0, 0], 200, 'all 112 call sequences x block size x mode x upper level', (170, 171, 172))
    add('staged.d2.h3.n1', D(2, 3, 1, 1), [1, -1, 0, -2, 0, 0], 240, 'one particle, every leaf, every call sequence', (170, 171, 172))
    add('single.d1.h4.n3', D(1, 4, 3, 1), [-3, -1, 1, -2, 0, 0], 200, 'each of the six flags alone', (173,))
    add('single.d3.h3.n2', D(3, 3, 2, 1), [2, 0, 1, -1, 0, 0], 240, '', (173,))
    add('upper.d1.h5.n3', D(1, 5, 3, 1), [-2, -1, 2, -1, 0, 0], 200, 'upper working level 0..5', (177, 178))
    add('upper.d2.h3.n2', D(2, 3, 2, 1), [-2, -1, 2, -1, 0, 0], 200, '', (177, 178))
    from .C09 import DT
    S.append(dict(name='staged-tsm.d1.h4.s1.t2', wrapper='w_tsm.cpp', defines=DT(1, 4, 1, 2, 1), entry='h_c12_tsm', args=[2, 0 if q else -1, 0, -1, 0, 0], time_limit=200 if q else 1200,
                  note='target/source executor: all 112 call sequences', expect_reach=(450, 451)))
    if not q:
        add('staged.d1.h5.n3', D(1, 5, 3, 1), [-3, -1, 0, -2, 0, 0], 2400, '', (170,))
        add('staged.d3.h3.n2', D(3, 3, 2, 1), [-2, -1, 0, -1, 0, 0], 3000, '', (170,))
        add('single.d2.h4.n3', D(2, 4, 3, 1), [-3, -1, 1, -2, 0, 0], 2400, '', (173,))
        add('upper.d3.h4.n2', D(3, 4, 2, 1), [-2, -1, 2, -1, 0, 0], 2400, '', (177,))
    ctx.bounds.update(dict(trees='Dim 1-3, heights 3-5, 2-3 particles, block sizes 1..3, both grouping modes', histories='all 112 dependency-ordered partitions of the six flags; each flag alone; upper levels 0..H',
                           executors='sequential single-tree and target/source executors; the periodic top-tree executor run flag by flag under C10; OpenMP under C03 (full runs)', outside='flag sets that violate the dependency order (not covered by the property)'))
    ctx.assumptions += ASSUME
    e2.run_configs(ctx, S)
    return finish(ctx, TEXT)
