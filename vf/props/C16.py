"""C16 - cell and leaf lookup finds exactly what exists.  E1: lookup kernels over raw buffers (cbmc); E2: tree-level queries (irsym)."""
from .. import e1

LEVEL_TEXT = ('bounded symbolic model checking (cbmc) of the real in-group lookups through the raw-memory constructors: K <= 8 cells/leaves with arbitrary '
              'strictly increasing 63-bit indices and an arbitrary 64-bit query in one SAT query each; tree-level findGroupWithCell/findGroupWithLeaf by '
              'symbolic execution (irsym) over every occupancy pattern of the bounded trees and every query index of every level incl. -1 and the upper bound')


def run(ctx):
    q = ctx.quick()
    km = 8 if q else 12
    specs = [
        dict(name='cells.lookup', wrapper='w_c16_lookup.cpp', wdefs=['DIM=3'], harness='h_c16_lookup.c', entry='h_c16_cells', hdefs=['KMAX=%d' % km], umax=40, timeout=900,
             note='getElementFromSpacialIndex / getElementFromParentIndex, K<=%d' % km),
        dict(name='leaves.lookup', wrapper='w_c16_lookup.cpp', wdefs=['DIM=3'], harness='h_c16_lookup.c', entry='h_c16_leaves', hdefs=['KMAX=%d' % km], umax=40, timeout=900,
             note='TbfParticlesContainer::getElementFromSpacialIndex, K<=%d' % km),
        dict(name='lower_bound', wrapper='w_c16_lookup.cpp', wdefs=['DIM=3'], harness='h_c16_lookup.c', entry='h_c16_lower_bound', hdefs=['NMAX=%d' % (12 if q else 24)], umax=60, timeout=900,
             note='TbfUtils::lower_bound_indexes on any sorted array of <= NMAX signed 64-bit values'),
    ]
    if getattr(ctx, 'only', None): specs = [x for x in specs if ctx.only in x['name']]
    ctx.bounds.update(dict(group_sizes='K <= %d' % km, indices='any strictly increasing non-negative 63-bit values', query='any 64-bit value',
                           outside='groups with more cells than K (the binary search is uniform in K; stated, not proved)'))
    ctx.assumptions += ['Dim 3 cell/leaf header layout laid out by the harness as the raw-memory constructor documents it (trailer = offsets then counts)',
                        'clang 14 -O1 IR, assertions + UBSan traps as obligations, differential self-check vs g++ per query']
    e1.run_many(ctx, specs, jobs=6)
    if not getattr(ctx, 'only', None) or 'tree' in ctx.only:
        try:
            from . import c16_tree
            c16_tree.run(ctx)
        except ImportError:
            pass
    return finish(ctx)


def finish(ctx):
    return ctx.finish('model_checking', LEVEL_TEXT, 'one cbmc query per lookup kernel (all K, all indices, all queries at once); one irsym query per bounded tree family',
                      exhaustive=not getattr(ctx, 'partial', 0))
