"""C17 - bulk export returns every particle's data and results under its original index."""
from .treecommon import D, ASSUME, finish, run_specs

TEXT = ('bounded symbolic execution (irsym+z3) of getAllParticlesData / getAllParticlesRhs on the trees of C01: entry i of the export equals the data values (symbolic bit patterns) '
        'and the result values (linear forms in the symbolic payload, row r scaled by r+1) of the particle inserted at position i, before execute, after execute and after rebuild, '
        'for 1-6 data values and 0-4 result values; out-of-bounds writes into the result array are caught by the interpreter')


def run(ctx):
    q = ctx.quick()
    T = [('d1.h3.n3.data3.rhs1', D(1, 3, 3, 1, NEXTRA=2, SYMBOLIC_EXTRA=1), [-4, -1, 1, -1, 0, 0], 120, '3 data values, 1 result value'),
         ('d1.h3.n2.data1.rhs4', D(1, 3, 2, 1, NRHS=4), [-3, -1, 1, -1, 0, 0], 120, '1 data value, 4 result values'),
         ('d2.h3.n2.data6.rhs2', D(2, 3, 2, 1, NEXTRA=4, SYMBOLIC_EXTRA=1, NRHS=2), [-3, -1, 1, -1, 0, 0], 200, '6 data values, 2 result values'),
         ('d3.h2.n2.data3.rhs3', D(3, 2, 2, 1, NRHS=3), [-3, -1, 1, -1, 0, 0], 200, ''),
         ('d2.h2.n3.data2.rhs0', D(2, 2, 3, 1, NRHS=0), [-4, -1, 1, -1, 0, 0], 120, 'no result values'),
         ('d2.h3.n2.float', D(2, 3, 2, 1, REALT='float', NEXTRA=1, NRHS=2), [-3, -1, 0, -1, 0, 0], 120, 'float')]
    if not q:
        T += [('d1.h5.n4.data4.rhs3', D(1, 5, 4, 1, NEXTRA=3, SYMBOLIC_EXTRA=1, NRHS=3), [-5, -1, 1, -1, 0, 0], 1500, ''),
              ('d3.h3.n3.data5.rhs4', D(3, 3, 3, 1, NEXTRA=2, SYMBOLIC_EXTRA=1, NRHS=4), [-4, -1, 1, -1, 0, 0], 2400, ''),
              ('d3.h3.n2.mixed', D(3, 3, 2, 1, DATAT='float', NEXTRA=2, NRHS=2), [-3, -1, 1, -1, 0, 0], 900, 'double coordinates stored as float, exported as double')]
    ctx.bounds.update(dict(trees='Dim 1-3, heights 2-3 (5 thorough), 2-4 particles, block sizes 1..N+1, both grouping modes', values='1-6 data values, 0-4 result values, float/double',
                           outside='source/target exports getAllParticlesDataSource/Target, getAllParticlesRhsTarget are decided by the C09 export-rebuild rows (wrappers/w_tsm.cpp), not here; larger trees'))
    ctx.assumptions += ASSUME
    run_specs(ctx, 'w_tree.cpp', 'h_c17', T, expect_reach=(150,))
    return finish(ctx, TEXT)
