"""C13 - rebuild re-bins moved particles and preserves identity, data and results."""
from .treecommon import D, ASSUME, finish, run_specs

TEXT = ('bounded symbolic execution (irsym+z3) of the history build -> execute -> edit positions in place -> rebuild() -> execute (twice in the thorough tier): both the initial and the new position of '
        'every particle are forked over the half lattice (leaves empty, appear, group count changes); after rebuild the tree satisfies the construction and structure assertions of C06/C07 for the '
        'edited positions, every particle keeps index, data and its accumulated result form, all expansions read initialised-zero; after the next execute rhs_i = (c+1) * sum_{j!=i} w_j')


def run(ctx):
    q = ctx.quick()
    T = [('d1.h3.n2', D(1, 3, 2, 0, NEXTRA=1, SYMBOLIC_EXTRA=1), [-3, -1, 1, -1, 0, 0], 200, 'full half lattice before and after the move'),
         ('d1.h4.n3.spread', D(1, 4, 3, 1), [-3, -1, 1, -1, 1, 0], 240, 'initially one particle per diagonal leaf, then every displacement of all three (leaves empty/appear, group count changes)'),
         ('d1.h4.n3.stacked', D(1, 4, 3, 1), [-3, -1, 1, -1, 2, 0], 240, 'initially all particles in one leaf, then every displacement'),
         ('d2.h3.n2.spread', D(2, 3, 2, 1), [-2, -1, 1, -1, 1, 0], 300, ''),
         ('d3.h2.n2', D(3, 2, 2, 1, NRHS=2), [-2, -1, 1, -1, 0, 0], 200, 'two result values'),
         ('d3.h21.n2.deep', D(3, 21, 2, 3), [2, 0, 1, -1, 0, 0], 120, 'deep sparse tree (62-bit indices): moves, rebuild, execute')]
    if not q:
        T += [('d1.h3.n2.2cycles', D(1, 3, 2, 1), [-3, -1, 2, -1, 0, 0], 1200, 'two move/rebuild/execute cycles'),
              ('d2.h3.n2.faces', D(2, 3, 2, 2), [-2, -1, 1, -1, 0, 0], 3000, ''), ('d3.h3.n2', D(3, 3, 2, 1), [2, 0, 1, -1, 0, 0], 3000, ''),
              ('d2.h3.n2.periodic', D(2, 3, 2, 1, ORD=1), [-2, -1, 1, -1, 0, 0], 1800, 'periodic ordering (rebuild with a non-default space index)')]
    ctx.bounds.update(dict(trees='Dim 1-3, heights 2-4, 2-3 particles, block sizes 1..3, both grouping modes', histories='one (two thorough) move/rebuild/execute cycle, arbitrary displacement of every particle',
                           outside='target/source trees (rebuild forwards to the two single trees); more cycles'))
    ctx.assumptions += ASSUME
    run_specs(ctx, 'w_tree.cpp', 'h_c13', T, expect_reach=(180, 181, 183))
    return finish(ctx, TEXT)
