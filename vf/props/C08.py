"""C08 - results and the multiset of elementary interactions do not depend on the grouping."""
from .treecommon import D, ASSUME, finish, run_specs

TEXT = ('bounded symbolic execution (irsym+z3): on every path the same particles are built into a reference tree (one group per level) and a test tree (block size and grouping mode forked), '
        'both run with the weighted logging kernel; asserted: identical sets of cells, every multipole/local/rhs equal as forms in the symbolic payload, and the exact multiset of elementary '
        'interactions (operator, level, target, source, position code) identical - batch calls expanded into their elements')


def run(ctx):
    q = ctx.quick()
    T = [('d1.h5.n3', D(1, 5, 3, 1), [-3, -1, 0, -2, 0, 0], 200, 'sibling sets and interaction batches cut at every possible group boundary (block sizes 1..4)'),
         ('d1.h3.n3.faces', D(1, 3, 3, 0), [-4, -1, 0, -1, 0, 0], 120, ''),
         ('d2.h3.n3', D(2, 3, 3, 1), [-4, -1, 0, -1, 0, 0], 240, ''),
         ('d2.h4.n2', D(2, 4, 2, 1), [-2, -1, 0, -1, 0, 0], 240, ''),
         ('d3.h3.n2', D(3, 3, 2, 1), [1, -1, 0, -1, 0, 0], 240, ''),
         ('auto.d1.h4.n3', D(1, 4, 3, 1), [-100, -1, 0, -1, 0, 0], 200, 'automatic block size (Estimate) with 1, 2 or 16 hardware threads'),
         ('auto.d3.h2.n3', D(3, 2, 3, 1), [-100, -1, 0, -1, 0, 0], 240, 'automatic block size, Dim 3')]
    if not q:
        T += [('d1.h6.n4', D(1, 6, 4, 1), [-5, -1, 0, -2, 0, 0], 1800, ''), ('d2.h4.n3', D(2, 4, 3, 1), [-4, -1, 0, -1, 0, 0], 2400, ''),
              ('d2.h5.n2', D(2, 5, 2, 1), [-3, -1, 0, -1, 0, 0], 1800, ''), ('d3.h3.n3', D(3, 3, 3, 1), [-4, -1, 0, -1, 0, 0], 2400, ''),
              ('d3.h4.n2', D(3, 4, 2, 1), [-3, -1, 0, -1, 0, 0], 2400, '')]
    ctx.bounds.update(dict(trees='Dim 1-3, heights 3-5 (6 thorough), 2-3 particles (4 thorough); reference = one group per level; test block sizes 1..N+1 x both grouping modes',
                           executors='sequential; target/source and OpenMP variants under C09 / C03',
                           outside='the TBFMM_BLOCK_SIZE environment override (getenv returns null: the istringstream parser lives in libstdc++.so, no IR); floating-point kernels. The automatic block size IS covered: std::set insertion is modelled without rebalancing (any BST shape is a correct set), hardware_concurrency forked over {1,2,16}'))
    ctx.assumptions += ASSUME
    run_specs(ctx, 'w_tree.cpp', 'h_c08', T, expect_reach=(160, 162, 163, 164))
    return finish(ctx, TEXT)
