"""C20 - direct particle-particle routines implement the pairwise law, symmetrically (E3: real-arithmetic symbolic execution + z3 nlsat)."""
from concurrent.futures import ThreadPoolExecutor
from .. import e3

TEXT = ('symbolic execution of the clang IR of FP2PR::FullMutual / GenericInner / GenericFullRemote / MutualParticles / NonMutualParticles (scalar paths) with every float/double replaced by a z3 Real: positions, '
        'charges of either sign and the initial result arrays are symbolic reals, counts are concrete per query (0..3 x 0..3). For every output component one nlsat query proves, under pairwise distinct positions, '
        'output = initial + the pairwise law (potential sum q_j/r, force q_i q_j (x_j-x_i)/r^3, equal and opposite on the source side of the mutual routine, no self term in the in-leaf routine); counts 0 and 1 leave '
        'what they must unchanged. This is the law the rounding error is measured against; nothing is claimed about the size of the rounding error')

ROUT = {0: 'FullMutual', 1: 'GenericInner', 2: 'GenericFullRemote', 3: 'MutualParticles', 4: 'NonMutualParticles'}


def run(ctx):
    q = ctx.quick()
    Q = []
    nmax = 4 if q else 8
    for real in ('double', 'float'):
        defs = ['REALT=%s' % real, 'NMAXP=16']
        for r in (0, 2):
            for ns in range(0, nmax + 1):
                for nt in range(0, nmax + 1):
                    if real == 'float' and (ns, nt) not in ((1, 1), (2, 1), (1, 2), (0, 2), (2, 0)): continue
                    Q.append(('%s.%s.s%d.t%d' % (ROUT[r], real, ns, nt), defs, r, ns, nt))
        for nt in range(0, (6 if q else 12) + 1):
            if real == 'float' and nt not in (1, 2, 3): continue
            Q.append(('%s.%s.n%d' % (ROUT[1], real, nt), defs, 1, 0, nt))
        Q.append(('%s.%s' % (ROUT[3], real), defs, 3, 1, 1)); Q.append(('%s.%s' % (ROUT[4], real), defs, 4, 1, 1))
    if getattr(ctx, 'only', None): Q = [x for x in Q if ctx.only in x[0]]
    ctx.bounds.update(dict(counts='sources 0..%d x targets 0..%d (in-leaf routine up to %d particles)' % (nmax, nmax, 6 if q else 12), types='double (all counts) and float (selected counts)',
                           symbolic='positions, charges, initial rhs contents: arbitrary reals with pairwise distinct positions',
                           outside='rounding (the statement says "to rounding": the proved law is what rounding is measured against); counts above the bound (loops are uniform in the count; stated, not proved); the Inastemp SIMD path (absent here)'))
    ctx.assumptions += ['idealised real arithmetic: fadd/fsub/fmul/fdiv are the real operations, fpext/fptrunc are the identity', 'sqrt(x) = the non-negative real s with s*s = x',
                        'all pairwise squared distances > 0 (coincident source/target is excluded by the property itself)', 'clang 14 -O1 IR with -ffp-contract=off']
    e3.run_queries(ctx, Q, per_goal_timeout=(120 if q else 900))
    return ctx.finish('other', TEXT, 'one query per (routine, type, #sources, #targets); one solver goal per output component; a query is non-trivial when it has >= 1 particle',
                      exhaustive=True, extra_cov=dict(obligations=sum(x.get('goals', 0) for x in ctx.queries), discharged=sum(x.get('proved', 0) for x in ctx.queries)))
