"""C10 - periodic mode: one contribution from every image in the repetition cube."""
from .treecommon import D, ASSUME, finish
from .. import e2

TEXT = ('bounded symbolic execution (irsym+z3) of the documented four-call periodic sequence (bottom-to-top, TbfAlgorithmPeriodicTopTree, transfer, top-to-bottom) on the periodic Morton ordering with the '
        'weighted geometry-checking kernel: proved on every path, for all payload values, rhs_i = R^Dim * sum_j w_j - w_i with R = getNbRepetitionsPerDim(), R = hi-lo+1 of getRepetitionsIntervals(); every '
        'M2L/P2P call carries a position code equal to the unwrapped offset (modulo the box), the virtual levels above the root are identified by buffer address: level arguments, child sets, the -3..2 / -2..3 '
        'transfer windows minus the near cells; TbfPeriodicShifter displaces sources by exactly the whole box multiple that puts their leaf at target+offset, and frees what it duplicates')


def run(ctx):
    q = ctx.quick()
    S = []
    def add(name, defines, args, tl, note=''):
        S.append(dict(name=name, wrapper='w_periodic.cpp', defines=defines, entry='h_c10', args=args, time_limit=tl, note=note, expect_reach=(500, 501, 503)))
    # args: block size, grouping, k (-9: forked over -1..a4), -, a4
    add('d1.h3.n2.k-1..3', D(1, 3, 2, 0), [-3, -1, -9, 0, 3, 0], 200, 'full half lattice incl. both periodic boundary faces; extra levels -1..3')
    add('d1.h4.n3.k-1..1', D(1, 4, 3, 1), [-2, -1, -9, 0, 1, 0], 200, '')
    add('d2.h2.n2.k-1..2', D(2, 2, 2, 0), [-3, -1, -9, 0, 2, 0], 240, 'height 2: every leaf is its own periodic neighbour')
    add('d2.h3.n2.k-1..1.box1', D(2, 3, 2, 1, BOX=1), [-2, -1, -9, 0, 1, 0], 240, 'per-dimension box widths')
    add('d3.h2.n2.k-1..2', D(3, 2, 2, 1), [-2, -1, -9, 0, 2, 0], 240, '')
    add('d3.h3.n1.k-1..2', D(3, 3, 1, 1), [1, -1, -9, 0, 2, 0], 300, 'a single particle in every leaf of the 4x4x4 grid: it interacts with its own images only')
    from .C09 import DT
    S.append(dict(name='tsm.d1.h3.s1.t1.k-1..3', wrapper='w_periodic_tsm.cpp', defines=DT(1, 3, 1, 1, 0), entry='h_c10_tsm', args=[-2, -1, -9, 0, 3, 0], time_limit=200,
                  note='target/source variant: TbfAlgorithmTsm + TbfAlgorithmPeriodicTopTreeTsm', expect_reach=(520, 521)))
    S.append(dict(name='tsm.d2.h2.s1.t1.k-1..2.box1', wrapper='w_periodic_tsm.cpp', defines=DT(2, 2, 1, 1, 1, BOX=1), entry='h_c10_tsm', args=[1, -1, -9, 0, 2, 0], time_limit=200, note='per-dimension box widths', expect_reach=(520, 521)))
    if not q:
        add('d1.h3.n3.k-1..5', D(1, 3, 3, 0), [-3, -1, -9, 0, 5, 0], 2400, '')
        add('d1.h5.n2.k-1..5', D(1, 5, 2, 1), [-3, -1, -9, 0, 5, 0], 1800, '')
        add('d2.h3.n2.faces.k-1..5', D(2, 3, 2, 2), [-2, -1, -9, 0, 5, 0], 3000, '')
        add('d2.h4.n2.k0..2', D(2, 4, 2, 1), [-2, -1, -9, 0, 2, 0], 3000, '')
        add('d3.h3.n2.k-1..5', D(3, 3, 2, 1), [-2, -1, -9, 0, 5, 0], 3600, '')
        add('d3.h2.n3.k-1..3.float', D(3, 2, 3, 1, REALT='float', BOX=1), [-2, -1, -9, 0, 3, 0], 2400, '')
    ctx.bounds.update(dict(trees='Dim 1-3, heights 2-4 (5 thorough), 2-3 particles, block sizes 1..3, both grouping modes', extra_levels='-1..3 quick / -1..5 thorough',
                           executors='sequential executors: single-tree and target/source, each with its top-tree class; OpenMP outside this module',
                           outside='numerical kernels under periodicity (C04/C05); extra levels > 5'))
    ctx.assumptions += ASSUME
    e2.run_configs(ctx, S)
    return finish(ctx, TEXT)
