"""shared pieces of the tree-level (E2) property modules"""
from .. import e2


def D(dim, h, n, pos, **kw):
    d = ['DIM=%d' % dim, 'HEIGHT=%d' % h, 'NPART=%d' % n, 'POSMODE=%d' % pos]
    for k, v in kw.items(): d.append('%s=%s' % (k, v))
    return d


ASSUME = ['clang 14 -O1 IR of the headers with assertions enabled; interpreter validated per query against the g++ build on seeded concrete runs',
          'operator new never fails; getenv returns null',
          'positions are half-lattice points of the leaf grid (faces, centres, closed upper face) of dyadic boxes, so the library FP binning is exact']


def finish(ctx, text, rule=None):
    return ctx.finish('model_checking', text,
                      rule or ('one query per bounded tree family; every path = one (block size, grouping mode, occupancy pattern[, history]); a query is non-trivial when >= 1 path '
                               'completed with all assertions proved; distinct = distinct (defines, entry, args)'),
                      exhaustive=not getattr(ctx, 'partial', 0))


def run_specs(ctx, wrapper, entry, table, expect_reach=(), reserve=0):
    """table rows: (name, defines, args, time_limit, note)"""
    S = [dict(name=n, wrapper=wrapper, defines=d, entry=entry, args=a, time_limit=tl, note=note, expect_reach=expect_reach) for (n, d, a, tl, note) in table]
    return e2.run_configs(ctx, S, reserve=reserve)
