"""C14 - group buffers are self-describing flat memory: byte copies are equivalent views."""
from .. import e1, e2
from .treecommon import D, ASSUME, finish

TEXT = ('(a) cbmc on the layout arithmetic of the four block kinds and their viewers (clang IR -> C): every item count 0..10^4, every element index and row, element sizes 1..4096 bytes, in one SAT query per '
        '(element size, rows): block sizes, leading dimensions, element ranges inside the block, pairwise disjoint, aligned; (b) symbolic execution (irsym) of real TbfMemoryBlock objects with item counts '
        'forked over alignment-boundary values: cumulative offsets, trailer contents, zero fill, raw-memory view of a byte copy derives the same pointers, buffer reuse after shrinking, regrowth, move '
        'construction/assignment, exactly-once free; (c) symbolic execution on every group of the bounded trees after execute(): a byte copy viewed through the raw-memory constructor returns equal values from '
        'every accessor and an operator on the copy computes the same forms')


def run(ctx):
    q = ctx.quick()
    only = getattr(ctx, 'only', None)
    combos = [(1, 3), (4, 5), (8, 1), (24, 4), (32, 5), (40, 3), (64, 8), (4096, 3)] if q else [(e, r) for e in (1, 4, 8, 24, 32, 40, 64) for r in (1, 3, 4, 5, 8)] + [(4096, 1), (4096, 3), (4096, 8)]
    specs = [dict(name='layout.e%d.r%d' % (e, r), wrapper='w_c14_layout.cpp', wdefs=['ESZ=%d' % e, 'NROWS=%d' % r], harness='h_c14_layout.c', entry='h_c14_layout',
                  hdefs=['ESZ=%d' % e, 'NROWS=%d' % r, 'NMAX=%d' % (10000 if e < 4096 else 1000)], umax=20, timeout=900, note='all item counts 0..%d, all (item,row) pairs' % (10000 if e < 4096 else 1000), mem_gb=(12 if e < 4096 else 30), u0=8) for e, r in combos]
    if only: specs = [x for x in specs if only in x['name']]
    e1.run_many(ctx, [x for x in specs if '.e4096.' not in x['name']], jobs=8)
    e1.run_many(ctx, [x for x in specs if '.e4096.' in x['name']], jobs=2)       # 4096-byte elements need ~15 GB each in cbmc
    S = []
    for t, nm in ((0, 'particle-group tuple: scalar+vector+vector<long>+multiR<double,3>'), (1, 'cell-group tuple: scalar+vector'), (2, 'vector<1 byte>+multiV<float,5>+multiR<float,4>'), (3, 'vector<4096 bytes>')):
        S.append(dict(name='memblock.tuple%d' % t, wrapper='w_memblock.cpp', defines=['TUPLE=%d' % t], entry='h_memblock', args=[0, 1, 0, 0, 0, 0], time_limit=300 if q else 1800,
                      note=nm + '; counts forked over {0,1,2,k-1,k,k+1 for k*size in {64,128}, 4096/size(+1), 10^4}, shrink/reuse/regrow, moves', expect_reach=(300, 301, 303, 304, 306, 308),
                      max_paths=(4000 if q else 10**9)))
    T = [('bytecopy.d1.h4.n3', D(1, 4, 3, 1), [-4, -1, 0, -1, 0, 0], 200, ''), ('bytecopy.d2.h3.n2', D(2, 3, 2, 1, NEXTRA=1, SYMBOLIC_EXTRA=1), [-3, -1, 0, -1, 0, 0], 200, ''),
         ('bytecopy.d3.h3.n2', D(3, 3, 2, 1, NRHS=2), [2, -1, 0, -1, 0, 0], 240, ''),
         ('bytecopy.d2.h4.n2.local5', D(2, 4, 2, 1, LCELLN=5), [-3, -1, 0, -1, 0, 0], 240, 'local expansions 5 words, multipoles 1 word: the three buffers of a cell group have different sizes; both raw-memory constructors')]
    if not q:
        T += [('bytecopy.d2.h4.n3', D(2, 4, 3, 1), [-4, -1, 0, -1, 0, 0], 2400, ''), ('bytecopy.d3.h3.n3.float', D(3, 3, 3, 1, REALT='float'), [-3, -1, 0, -1, 0, 0], 2400, '')]
    for (n, d, a, tl, note) in T:
        S.append(dict(name=n, wrapper='w_tree.cpp', defines=d, entry='h_c14', args=a, time_limit=tl, note=note, expect_reach=(190, 191, 192, 193, 194)))
    ctx.bounds.update(dict(layout='item counts 0..10^4 (symbolic), element sizes {1,4,8,24,32,40,64,4096}, rows {1,3,4,5,8}', memblock='4 block tuples (2 shipped, 2 synthetic), boundary item counts per block (forked)',
                           trees='Dim 1-3, heights 3-4, 2-3 particles, all block sizes/grouping modes', outside='item counts > 10^4; element types other than the list; in the quick tier the memblock count tuples are capped at 4000 paths per tuple'))
    ctx.assumptions += ASSUME + ['E1: no memory is accessed in the layout queries (addresses computed from a base pointer)', 'operator new returns 16-byte aligned blocks (not more): stricter alignment assumptions would be reported']
    e2.run_configs(ctx, S)
    return finish(ctx, TEXT, 'one cbmc query per (element size, rows); one irsym query per block tuple / tree family')
