"""C11 - space-filling-curve index algebra.
E1 (ir2c+cbmc): leaf functions at full symbolic width.  E2 (irsym): list builders (see c11_lists)."""
from .. import e1
from ..common import Inconclusive

LEVEL_TEXT = ('bounded symbolic model checking of the real index functions (clang IR -> C -> cbmc, bit-precise): every level up to '
              'the largest whose indices fit 62 bits, all coordinates/indices of the level in one SAT query per (ordering, Dim); '
              'list builders by path-forking symbolic execution of the same IR (irsym + z3) against the set-theoretic definition')


def leaf_specs(ctx):
    sp = []
    quick = ctx.quick()
    # Morton, periodic Morton: Dim 1..4, all levels with Dim*L <= 62 (quick: a smaller cap for Dim 1,2 to stay fast)
    for ordn, oname in ((0, 'morton'), (1, 'morton-periodic')):
        for dim in (1, 2, 3, 4):
            lmax = 62 // dim
            if ordn == 1 and quick and dim in (1, 4): continue     # the leaf functions do not depend on IsPeriodic; thorough runs them all
            wdefs = ['DIM=%d' % dim, 'ORD=%d' % ordn, 'HEIGHT=5']
            sp.append(dict(name='%s.dim%d.grid' % (oname, dim), wrapper='w_c11_leaf.cpp', wdefs=wdefs, harness='h_c11_leaf.c',
                           entry='h_c11_grid', hdefs=['DIM=%d' % dim, 'ORD=%d' % ordn, 'LMIN=0', 'LMAX=%d' % lmax, 'CHECK_CONTAINMENT', 'CHECK_OCTANT'],
                           umax=2 * 62 + 6, timeout=900 if quick else 3000,
                           note='levels 0..%d, coordinates < 2^level, index < 2^(Dim*level)' % lmax))
            sp.append(dict(name='%s.dim%d.codes' % (oname, dim), wrapper='w_c11_leaf.cpp', wdefs=wdefs, harness='h_c11_leaf.c',
                           entry='h_c11_codes', hdefs=['DIM=%d' % dim, 'ORD=%d' % ordn, 'LMIN=0', 'LMAX=1'], umax=40, timeout=600,
                           note='all 7^Dim transfer codes, all 3^Dim neighbour codes, all offsets'))
    # Hilbert (Dim 3): tree height h, every level l < h
    heights = (2, 3, 5) if quick else (1, 2, 3, 4, 5, 6, 7, 8, 12, 20)
    for h in heights:
        wdefs = ['DIM=3', 'ORD=2', 'HEIGHT=%d' % h]
        for l in range(0, h):
            if quick and h == 5 and l in (3,): continue
            base = ['DIM=3', 'ORD=2', 'LMIN=%d' % l, 'LMAX=%d' % l]
            sp.append(dict(name='hilbert.h%d.l%d.grid' % (h, l), wrapper='w_c11_leaf.cpp', wdefs=wdefs, harness='h_c11_leaf.c',
                           entry='h_c11_grid', hdefs=base, umax=140, timeout=900, note='bijection and child/parent algebra at level %d of a height-%d tree' % (l, h)))
            if l >= 1:
                nm = 'hilbert-l1-containment.h%d' % h if l == 1 else 'hilbert-containment.h%d.l%d' % (h, l)
                sp.append(dict(name=nm, wrapper='w_c11_leaf.cpp', wdefs=wdefs, harness='h_c11_leaf.c', entry='h_c11_grid',
                               hdefs=base + ['CHECK_CONTAINMENT'], umax=140, timeout=900, diff=0, witness=False,
                               note='geometric parent containment, Hilbert ordering'))
                sp.append(dict(name='hilbert-octant.h%d.l%d' % (h, l), wrapper='w_c11_leaf.cpp', wdefs=wdefs, harness='h_c11_leaf.c', entry='h_c11_grid',
                               hdefs=base + ['CHECK_OCTANT'], umax=140, timeout=900, diff=0, witness=False,
                               note='child code identifies the octant (Morton bit convention used by the kernels), Hilbert ordering'))
    if not quick:
        sp.append(dict(name='hilbert.dim3.codes', wrapper='w_c11_leaf.cpp', wdefs=['DIM=3', 'ORD=2', 'HEIGHT=5'], harness='h_c11_leaf.c',
                       entry='h_c11_codes', hdefs=['DIM=3', 'ORD=2', 'LMIN=0', 'LMAX=1'], umax=40, timeout=600, note='position codes, Hilbert class'))
    if getattr(ctx, 'only', None): sp = [x for x in sp if ctx.only in x['name']]
    return sp


def run(ctx):
    ctx.bounds.update(dict(morton_levels='0..floor(62/Dim) for Dim 1..4', hilbert_heights='2,3,5 (quick) / 1..8,12,20 (thorough)',
                           symbolic='level, every coordinate (< 2^level), an independent index (< 2^(Dim*level)), position codes, offsets',
                           outside='levels whose indices need more than 62 bits; Hilbert in Dim != 3 (static_assert)'))
    ctx.assumptions += ['clang 14 -O1 lowering of the headers is what is verified (differential self-check against the g++ build on seeded inputs)',
                        'IR flavour: assertions enabled + UBSan traps (signed overflow, shift, bounds) as proof obligations',
                        'cbmc 6.11 with --unwinding-assertions: loop bounds found by refinement, exhausted bound = reported, not success']
    specs = leaf_specs(ctx)
    e1.run_many(ctx, specs, jobs=14)
    if not getattr(ctx, 'only', None) or 'lists' in ctx.only:
        try:
            from . import c11_lists
            c11_lists.run(ctx)
        except ImportError:
            pass
    return finish(ctx)


def finish(ctx):
    return ctx.finish('model_checking', LEVEL_TEXT,
                      'one query per (ordering, Dim[, height, level], obligation group); a query is non-trivial when cbmc checked >= 1 property '
                      'on symbolic inputs; distinct = distinct (wrapper defines, harness entry, harness defines)',
                      exhaustive=True)
