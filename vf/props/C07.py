"""C07 - the tree is the sorted, partitioned ancestor closure of the occupied leaves."""
from .treecommon import D, ASSUME, finish, run_specs

TEXT = ('bounded symbolic execution (irsym) of the real TbfTree constructor and rebuild(): for every occupancy pattern x block size x grouping mode of the bounded trees, '
        'read through the public accessors only: groups non-empty, recorded first/last index match content, the concatenation of the groups of a level equals the sorted set '
        '{leaf index >> Dim*(H-1-level)} (hence strictly increasing, disjoint, exactly the ancestor closure), leaf cell groups match particle groups cell by cell, group size <= block size '
        '(leaf level always; upper levels unless one-group-per-parent); again after rebuild()')


def run(ctx):
    q = ctx.quick()
    T = [('d1.h4.n3', D(1, 4, 3, 1), [-4, -1, 1, -1, 0, 0], 120, 'block sizes 1..4, both modes, then rebuild'),
         ('d1.h6.n2', D(1, 6, 2, 1), [-3, -1, 0, -1, 0, 0], 120, 'five upper levels'),
         ('d2.h3.n3', D(2, 3, 3, 1), [-4, -1, 0, -1, 0, 0], 200, ''),
         ('d2.h4.n2', D(2, 4, 2, 1), [-3, -1, 1, -1, 0, 0], 200, ''),
         ('d3.h3.n2', D(3, 3, 2, 1), [-3, -1, 1, -1, 0, 0], 240, ''),
         ('d3.h2.n4', D(3, 2, 4, 1), [-5, -1, 0, -1, 0, 0], 200, '4 particles over the 8 leaves, block sizes 1..5'),
         ('d3.h21.n2.deep', D(3, 21, 2, 3), [-2, -1, 1, -1, 0, 0], 240, 'deep sparse tree at the largest Dim-3 height whose indices fit 62 bits, then rebuild'),
         ('d2.h32.n2.deep', D(2, 32, 2, 3), [-2, -1, 0, -1, 0, 0], 240, 'Dim 2, height 32 (62-bit indices)'),
         ('d1.h52.n3.deep', D(1, 52, 3, 3), [-3, -1, 1, -1, 0, 0], 240, 'Dim 1, height 52 (the largest height at which the half lattice is exact in double), then rebuild')]
    if not q:
        T += [('d1.h5.n4', D(1, 5, 4, 1), [-5, -1, 1, -1, 0, 0], 900, ''), ('d1.h8.n3', D(1, 8, 3, 1), [-4, -1, 0, -1, 0, 0], 1800, ''),
              ('d2.h4.n3', D(2, 4, 3, 1), [-4, -1, 0, -1, 0, 0], 1800, ''), ('d2.h5.n2', D(2, 5, 2, 1), [-3, -1, 1, -1, 0, 0], 1500, ''),
              ('d3.h3.n3', D(3, 3, 3, 1), [-4, -1, 0, -1, 0, 0], 2400, ''), ('d3.h4.n2', D(3, 4, 2, 1), [-3, -1, 0, -1, 0, 0], 2400, ''),
              ('d4.h2.n3', D(4, 2, 3, 1), [-4, -1, 1, -1, 0, 0], 900, '')]
    ctx.bounds.update(dict(trees='Dim 1-3 (4 thorough), heights 2-6 (8 thorough), 2-4 particles at cell centres, block sizes 1..N+1, both grouping modes (forked), with and without rebuild()',
                           outside='larger trees; source/target trees are checked under C09'))
    ctx.assumptions += ASSUME
    run_specs(ctx, 'w_tree.cpp', 'h_c07', T, expect_reach=(100, 101, 102, 103, 104))
    return finish(ctx, TEXT)
