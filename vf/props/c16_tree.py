"""C16 tree-level half (E2): findGroupWithCell / findGroupWithLeaf on every index of every level of the bounded trees"""
from .treecommon import D, ASSUME, run_specs


def run(ctx):
    q = ctx.quick()
    T = [('tree.d1.h5.n3', D(1, 5, 3, 1), [-4, -1, 0, -1, 0, 0], 120, 'every index -1..2^level of every level'),
         ('tree.d2.h3.n3', D(2, 3, 3, 1), [-4, -1, 0, -1, 0, 0], 200, ''),
         ('tree.d3.h3.n2', D(3, 3, 2, 1), [-3, -1, 0, -1, 0, 0], 300, 'indices -1..64 at the leaf level: gaps between groups, inside a group range but absent, below first, above last')]
    T += [('tree.deep.d3.h12.n2', D(3, 12, 2, 3), [-2, -1, 1, -1, 0, 0], 240, 'deep sparse tree (33-bit indices): queries = every existing cell, its index neighbours, -1, 0, upper bound'),
          ('tree.deep.d2.h18.n3', D(2, 18, 3, 3), [1, 0, 1, -1, 0, 0], 240, '34-bit indices'),
          ('tree.deep.d3.h21.n2', D(3, 21, 2, 3), [-2, -1, 1, -1, 0, 0], 240, 'the largest Dim-3 height whose indices fit 62 bits')]
    if not q:
        T += [('tree.d1.h7.n4', D(1, 7, 4, 1), [-5, -1, 0, -1, 0, 0], 1800, ''), ('tree.d2.h4.n3', D(2, 4, 3, 1), [-4, -1, 0, -1, 0, 0], 2400, ''),
              ('tree.d3.h3.n3', D(3, 3, 3, 1), [-4, -1, 0, -1, 0, 0], 2400, '')]
    ctx.bounds.update(dict(tree_level='Dim 1-3, heights 3-5 (7 thorough), 2-4 particles, block sizes 1..N+1, both grouping modes; query = every index in [-1, 2^(Dim*level)] of every level'))
    ctx.assumptions += ASSUME
    run_specs(ctx, 'w_tree.cpp', 'h_c16', T, expect_reach=(140, 141))
