"""./check <id> --replay <file>: re-run one recorded counterexample against the current /repo working tree.
exit 1 (and a VIOLATION line) when it still reproduces, exit 0 otherwise."""
import json, sys, os
from .common import Ctx, BuildError


def run(pid, path):
    d = json.load(open(path))
    ctx = Ctx(pid, 'quick', 1)
    eng = d.get('engine')
    verdict, info = 'unknown', ''
    try:
        if eng == 'E1':
            from . import e1
            exe = e1.native_build(ctx, d['wrapper'], d['wrapper_defines'], d['harness'], d['entry'], d['harness_defines'], None, sanitize=True)
            verdict, info = e1.replay_native(ctx, exe, d['inputs'])
        elif eng == 'E2':
            from . import e2
            if d.get('native') in ('fails', 'hang') or not d.get('decisions'):
                exe = e2.native_exe(ctx, d['wrapper'], d['defines'], sanitize=True, ndebug=d.get('ndebug', False), extra=tuple(d.get('extra_native', ())))
                verdict, info = e2.replay_native(ctx, exe, d['entry'], d['args'], d['choices'], d['syms'])
            else:
                verdict, info = 'not-native', 'this counterexample is a schedule of the mock task runtime; re-run the check itself'
        elif eng == 'E3':
            from . import e3
            nat = e3.native_outputs(ctx, d['defines'], d['routine'], d['ns'], d['nt'], d['inputs'])
            ref = e3.reference(d['routine'], d['ns'], d['nt'], d['inputs'])
            scale = max(1e-300, max(abs(x) for x in ref))
            bad = [(i, nat.get(i), ref[i]) for i in range(len(ref)) if abs(nat.get(i, 0.0) - ref[i]) > 1e-6 * scale]
            verdict, info = ('fails' if bad else 'holds'), str(bad[:3])
        elif eng == 'compile':
            try:
                ctx.build_ir(d['wrapper'], d['defines'], 'asserts', extra=tuple(a for a in ('-fopenmp', '-fopenmp-version=45') if d['wrapper'] == 'w_omp.cpp'))
                verdict = 'holds'
            except BuildError as e:
                verdict, info = 'fails', e.stderr[-500:]
    except BuildError as e:
        verdict, info = 'fails', 'does not build: ' + e.stderr[-400:]
    print('replay of %s: %s %s' % (d.get('key'), verdict, info[:600]))
    if verdict in ('fails', 'hang'):
        print('VIOLATION property=%s replay=%s' % (pid, path)); return 1
    return 0
