"""E3: the irsym interpreter with IEEE values replaced by z3 Reals (idealised real semantics), used for the direct P2P routines.
sqrt(x) is the (unique) non-negative real s with s*s == x; when x is provably the reciprocal of a squared distance the spec already
names, the spec's symbol for 1/distance is returned (sqrt is a function: equal arguments give equal values), otherwise a fresh symbol."""
import time, os, subprocess, json, hashlib
from fractions import Fraction
import z3
from . import irsym, ir2c
from .irsym import Interp, Unsupported, Violation, UNDEF
from .ir2c import Flt, Int
from .common import VERIF, REPO, GUARD, GXX_BASE, BuildError


def R(x):
    if isinstance(x, float): return z3.RealVal(Fraction(x))
    if isinstance(x, int): return z3.RealVal(x)
    return x


class RealInterp(Interp):
    def __init__(s, m, **kw):
        Interp.__init__(s, m, **kw)
        s.inputs = []; s.outputs = {}; s.constraints = []; s.sqrt_table = []; s.nsqrt = 0; s.sqrt_matched = 0

    def binop(s, op, a, b, t):
        if isinstance(t, Flt):
            if a is UNDEF or b is UNDEF: return UNDEF
            if isinstance(a, float) and isinstance(b, float): return Interp.binop(s, op, a, b, t)
            A, B = R(a), R(b)
            if op == 'fadd': return A + B
            if op == 'fsub': return A - B
            if op == 'fmul': return A * B
            if op == 'fdiv':
                # a / d2 with d2 a squared distance the spec names: d2 * u^2 == 1 with u > 0, hence a / d2 == a * u * u  (keeps both sides polynomial)
                for (d2, u) in s.sqrt_table:
                    if z3.is_true(z3.simplify(B == d2)) or z3.is_true(z3.simplify(z3.simplify(B - d2) == 0)):
                        s.div_rewritten = getattr(s, 'div_rewritten', 0) + 1
                        return A * u * u
                return A / B
            raise Unsupported('real ' + op)
        return Interp.binop(s, op, a, b, t)

    def cast(s, op, x, st, dt):
        if isinstance(x, z3.ArithRef):
            if op in ('fpext', 'fptrunc'): return x      # idealised: no rounding
            raise Unsupported('cast %s of a real-valued term' % op)
        return Interp.cast(s, op, x, st, dt)

    def fcmp_sym(s, pred, a, b):
        # reals have no NaN: ordered and unordered predicates coincide
        if a is UNDEF or b is UNDEF: raise Violation('comparison of an uninitialised value', 'uninit')
        A, B = R(a), R(b); q = pred[1:] if pred[0] in 'ou' and pred not in ('ord', 'uno') else pred
        if q == 'ord': return 1
        if q == 'uno': return 0
        return {'eq': A == B, 'ne': A != B, 'lt': A < B, 'le': A <= B, 'gt': A > B, 'ge': A >= B}[q]

    def sqrt(s, x):
        if isinstance(x, float):
            import math
            return math.sqrt(x)
        s.nsqrt += 1
        for (d2, u) in s.sqrt_table:
            if z3.is_true(z3.simplify(z3.simplify(x - u * u) == 0)):
                s.sqrt_matched += 1
                return u
        for (d2, u) in s.sqrt_table:
            sol = z3.Solver(); sol.set('timeout', 20000)
            sol.add(s.constraints); sol.add(x * d2 != 1)
            if sol.check() == z3.unsat:
                s.sqrt_matched += 1
                return u
        v = z3.Real('sqrt%d' % s.nsqrt)
        s.constraints += [v >= 0, v * v == x]
        return v

    def external(s, name, a):
        if name == 'irsym_symbolic_real':
            v = z3.Real('in%d' % len(s.inputs)); s.inputs.append(v); return v
        if name == 'irsym_output_real':
            s.outputs[a[0]] = R(a[1]); return None
        if name in ('sqrt', 'sqrtf') or name.startswith('llvm.sqrt.'):
            return s.sqrt(a[0])
        if name.startswith('llvm.fmuladd') or name.startswith('llvm.fma.'):
            if any(isinstance(x, z3.ArithRef) for x in a[:3]): return R(a[0]) * R(a[1]) + R(a[2])
        if name.startswith('llvm.fabs') and isinstance(a[0], z3.ArithRef):
            return z3.If(a[0] >= 0, a[0], -a[0])
        return Interp.external(s, name, a)


def _root_syms(e):
    """names of the square-root symbols (u_*, sqrt*) occurring in a z3 expression"""
    out = set(); seen = set(); stack = [e]
    while stack:
        x = stack.pop()
        i = x.get_id()
        if i in seen: continue
        seen.add(i)
        if z3.is_const(x) and x.decl().kind() == z3.Z3_OP_UNINTERPRETED:
            n = x.decl().name()
            if n.startswith('u_') or n.startswith('sqrt'): out.add(n)
        else: stack.extend(x.children())
    return out


def spec(routine, ns, nt, I):
    """pairwise law over real inputs I (the order the wrapper requests them): returns (expected outputs, constraints, sqrt table)"""
    src = []; tgt = []; k = 0
    for j in range(ns): src.append(dict(x=I[k:k+3], q=I[k+3], rhs=list(I[k+4:k+8]))); k += 8
    for i in range(nt): tgt.append(dict(x=I[k:k+3], q=I[k+3], rhs=list(I[k+4:k+8]))); k += 8
    cons = []; table = []
    def inv_dist(p, q, nm):
        d = [q['x'][c] - p['x'][c] for c in range(3)]
        d2 = d[0] * d[0] + d[1] * d[1] + d[2] * d[2]
        u = z3.Real('u_' + nm)                       # 1 / distance(p, q): the positive real with u^2 * d2 == 1
        cons.extend([d2 > 0, u > 0, u * u * d2 == 1])
        table.append((d2, u))
        return d, u
    es = [list(p['rhs']) for p in src]; et = [list(p['rhs']) for p in tgt]
    if routine in (0, 2, 3, 4):       # targets <- sources (and sources <- targets when mutual)
        for i, t in enumerate(tgt):
            for j, sp in enumerate(src):
                d, u = inv_dist(t, sp, 't%ds%d' % (i, j))          # d = x_s - x_t
                for c in range(3):
                    f = t['q'] * sp['q'] * d[c] * u * u * u
                    et[i][c] = et[i][c] + f
                    if routine in (0, 3): es[j][c] = es[j][c] - f
                et[i][3] = et[i][3] + sp['q'] * u
                if routine in (0, 3): es[j][3] = es[j][3] + t['q'] * u
    else:                              # in-leaf: every ordered pair i != j, no self term
        for i in range(nt):
            for j in range(i + 1, nt):
                d, u = inv_dist(tgt[i], tgt[j], 't%dt%d' % (i, j))   # d = x_j - x_i
                for c in range(3):
                    f = tgt[i]['q'] * tgt[j]['q'] * d[c] * u * u * u
                    et[i][c] = et[i][c] + f; et[j][c] = et[j][c] - f
                et[i][3] = et[i][3] + tgt[j]['q'] * u; et[j][3] = et[j][3] + tgt[i]['q'] * u
    out = []
    for p in es: out += p
    for p in et: out += p
    return out, cons, table


def native_outputs(ctx, defines, routine, ns, nt, vals):
    key = hashlib.md5(repr(tuple(defines)).encode()).hexdigest()[:8]
    exe = ctx.path('p2pnat_%s' % key)
    if not os.path.exists(exe):
        cmd = list(GXX_BASE) + ['-O1'] + ['-D%s' % d for d in defines] + [os.path.join(VERIF, 'wrappers', 'w_p2p.cpp'), os.path.join(VERIF, 'wrappers', 'p2p_native.cpp'), '-o', exe]
        r = subprocess.run(cmd, capture_output=True, text=True)
        if r.returncode: raise BuildError('w_p2p.cpp', defines, r.stderr)
    r = subprocess.run([exe, str(routine), str(ns), str(nt)] + ['%.17g' % v for v in vals], capture_output=True, text=True, timeout=30)
    out = {}
    for l in r.stdout.split('\n'):
        p = l.split()
        if len(p) == 3 and p[0] == 'out': out[int(p[1])] = float(p[2])
    return out


class _Proxy:
    """collects what run_query reports; merged into the real Ctx by the parent process"""
    def __init__(s, ctx):
        s.scratch = ctx.scratch; s.pid = ctx.pid; s.seed = ctx.seed
        s.functions = set(); s.inconclusive = []; s.queries = []; s.samples = []; s.viol = []
        s.counters = dict(paths=0, instr=0, solver_calls=0, solver_s=0.0, proved=0, native_replays=0)
        s._ctx = ctx
    def path(s, *a): return os.path.join(s.scratch, *a)
    def build_ir(s, *a, **k): return s._ctx.build_ir(*a, **k)
    def violation(s, key, what, rp): s.viol.append((key, what, rp))
    def replay_file(s, key, data): return s._ctx.replay_file(key, data)


def _worker(args):
    ctx, t, tmo = args
    px = _Proxy(ctx)
    try:
        run_query(px, t[0], t[1], t[2], t[3], t[4], per_goal_timeout=tmo)
    except Exception as ex:
        px.inconclusive.append('%s: %s: %s' % (t[0], type(ex).__name__, str(ex)[:200]))
    px._ctx = None
    return px


def run_queries(ctx, Q, per_goal_timeout, jobs=12):
    import multiprocessing as mp
    # IR builds first (shared scratch), then one forked worker per query (z3 contexts are per process)
    for d in {tuple(t[1]) for t in Q}:
        try: ctx.build_ir('w_p2p.cpp', list(d), 'plain')
        except BuildError as e:
            ctx.violation('p2p:build', 'w_p2p.cpp does not compile: ' + e.stderr[-500:], None); return
    # one forked process per query with a hard wall-clock cap: nlsat does not always honour its timeout, and a query that does not end is
    # reported inconclusive, never as success
    cap = 300 if ctx.quick() else 1500
    mpc = mp.get_context('fork')
    def child(conn, t):
        px = _worker((ctx, t, per_goal_timeout))
        try: conn.send(px)
        except Exception as ex: conn.send(None)
        conn.close()
    todo = list(Q); live = []
    def merge(px):
        ctx.functions |= px.functions; ctx.inconclusive += px.inconclusive; ctx.queries += px.queries
        for sm in px.samples:
            if len(ctx.samples) < 5: ctx.samples.append(sm)
        for k, v in px.counters.items(): ctx.counters[k] += v
        for key, what, rp in px.viol: ctx.violation(key, what, rp)
    while todo or live:
        while todo and len(live) < jobs:
            t = todo.pop(0); a, b = mpc.Pipe(duplex=False)
            pr = mpc.Process(target=child, args=(b, t)); pr.start(); b.close(); live.append((pr, a, t, time.time()))
        time.sleep(0.05)
        for ent in list(live):
            pr, a, t, ts = ent
            if a.poll():
                try: px = a.recv()
                except EOFError: px = None
                pr.join(5); live.remove(ent)
                if px is None: ctx.inconclusive.append('%s: worker ended without a result' % t[0])
                else: merge(px)
            elif not pr.is_alive():
                live.remove(ent); ctx.inconclusive.append('%s: worker died (exit code %s)' % (t[0], pr.exitcode))
            elif time.time() - ts > cap:
                pr.kill(); pr.join(5); live.remove(ent)
                ctx.inconclusive.append('%s: no verdict within the hard cap of %d s (solver did not return)' % (t[0], cap))


def run_query(ctx, name, defines, routine, ns, nt, per_goal_timeout=120):
    """one (routine, #sources, #targets): symbolic run of the IR in real semantics, one solver query per output component"""
    t0 = time.time()
    rec = dict(name=name, engine='E3 irsym-real + z3 nlsat', wrapper='w_p2p.cpp', defines=list(defines), routine=routine, nsources=ns, ntargets=nt)
    try:
        ll = ctx.build_ir('w_p2p.cpp', defines, 'plain')
    except BuildError as e:
        ctx.violation('%s:build' % name, 'w_p2p.cpp does not compile: ' + e.stderr[-500:], None); return
    m = ir2c.parse_module(open(ll).read())
    for fn in m.funcs: ctx.functions.add(fn)
    it = RealInterp(m, budget=2_000_000)
    nin = 8 * (ns + nt)
    I = [z3.Real('in%d' % i) for i in range(nin)]
    exp, cons, table = spec(routine, ns, nt, I)
    # the shipped routines have no data-dependent branch; if one appears (a comparison of real-valued terms feeding a branch) the paths are enumerated
    # (bounded: 64) and the law must hold on each under its path condition
    work = [[]]; npaths = 0; results = []; nproved = 0
    while work:
        prefix = work.pop(); npaths += 1
        if npaths > 1 and time.time() - t0 > (150 if ctx.quick() else 900):
            ctx.inconclusive.append('%s: data-dependent paths not exhausted within the time cap (%d explored)' % (name, npaths - 1)); rec['status'] = 'OPEN'; ctx.queries.append(rec); return
        if npaths > 64:
            ctx.inconclusive.append('%s: more than 64 data-dependent paths' % name); rec['status'] = 'UNSUPPORTED'; ctx.queries.append(rec); return
        st = _one_path(ctx, name, defines, routine, ns, nt, per_goal_timeout, it, prefix, I, exp, cons, table, rec, results)
        if st is None: return
        nproved += st; work.extend(it.pending)
    rec.update(status='HOLDS' if nproved == len(results) else 'OPEN', goals=len(results), proved=nproved, paths=npaths, sqrt_calls=it.nsqrt, sqrt_matched_to_spec=it.sqrt_matched,
               ir_instructions=it.path_instr, wall_s=round(time.time() - t0, 1), results=results[:40], nontrivial=(ns + nt) > 0)
    ctx.queries.append(rec)
    if len(ctx.samples) < 5 and nproved:
        ctx.samples.append(dict(query=name, goals=len(results), verdict='unsat for every output component (real arithmetic)', example_goal='%s %s: %s in %.2fs' % results[-1] if results else ''))


def _one_path(ctx, name, defines, routine, ns, nt, per_goal_timeout, it, prefix, I, exp, cons, table, rec, results):
    nin = 8 * (ns + nt)
    it.start_path(prefix)
    it.inputs = []; it.outputs = {}; it.constraints = list(cons); it.sqrt_table = table; it.nsqrt = 0; it.sqrt_matched = 0
    try:
        it.call('h_p2p', [routine, ns, nt, 0, 0, 0])
    except Unsupported as ex:
        ctx.inconclusive.append('%s: %s' % (name, str(ex)[:200])); rec['status'] = 'UNSUPPORTED'; ctx.queries.append(rec); return None
    except Violation as ex:
        ctx.violation('%s:%s' % (name, ex.kind), '%s: %s' % (name, str(ex)[:300]), None); rec['status'] = 'VIOLATED'; ctx.queries.append(rec); return None
    ctx.counters['paths'] += 1; ctx.counters['instr'] += it.path_instr
    it.constraints = it.constraints + list(it.pc)
    pc_roots = set()
    for c in it.pc: pc_roots |= _root_syms(c)
    if len(it.inputs) != nin or len(it.outputs) != 4 * (ns + nt):
        ctx.inconclusive.append('%s: harness produced %d inputs / %d outputs, expected %d / %d' % (name, len(it.inputs), len(it.outputs), nin, 4 * (ns + nt))); return None
    nproved = 0
    comp = ['force x', 'force y', 'force z', 'potential']
    for k in range(4 * (ns + nt)):
        who = ('source %d' % (k // 4)) if k < 4 * ns else ('target %d' % ((k - 4 * ns) // 4))
        # cone of influence: only the square-root symbols that occur in this component matter; constraints about other pairs are dropped
        # (sound for 'unsat': fewer assumptions); a 'sat' answer is re-solved under all constraints before it is used
        goal = it.outputs[k] != exp[k]
        roots = _root_syms(goal) | pc_roots
        cons_k = [c for c in it.constraints if _root_syms(c) <= roots]
        if len(it.pc): per_goal_timeout = min(per_goal_timeout, 30)
        sol = z3.Solver(); sol.set('timeout', per_goal_timeout * 1000)
        sol.add(cons_k); sol.add(goal)
        ts = time.time(); r = sol.check()
        if r == z3.sat and len(cons_k) < len(it.constraints):
            sol2 = z3.Solver(); sol2.set('timeout', per_goal_timeout * 1000); sol2.add(it.constraints); sol2.add(goal)
            r2 = sol2.check()
            if r2 == z3.sat: sol = sol2
            elif r2 == z3.unsat: r = z3.unsat
        dt = time.time() - ts
        ctx.counters['solver_calls'] += 1; ctx.counters['solver_s'] += dt
        results.append((who, comp[k % 4], str(r), round(dt, 2)))
        if r == z3.unsat:
            nproved += 1; ctx.counters['proved'] += 1
        elif r == z3.sat:
            mdl = sol.model()
            vals = []
            for v in I:
                x = mdl.eval(v, model_completion=True)
                try: vals.append(float(Fraction(x.numerator_as_long(), x.denominator_as_long())))
                except Exception: vals.append(float(x.approx(20).as_fraction()) if hasattr(x, 'approx') else 0.0)
            # replay: native double run vs the law evaluated in extended precision on the same inputs
            verdict = 'not replayed'; info = ''
            try:
                nat = native_outputs(ctx, defines, routine, ns, nt, vals)
                ref = reference(routine, ns, nt, vals)
                ctx.counters['native_replays'] += 1
                scale = max(1e-300, max(abs(x) for x in ref))
                bad = [(i, nat.get(i), ref[i]) for i in range(len(ref)) if abs(nat.get(i, 0.0) - ref[i]) > 1e-6 * scale]
                verdict = 'fails' if bad else 'holds'; info = str(bad[:2])
            except Exception as ex:
                info = 'replay error: %s' % ex
            key = '%s:law:%s_%s' % (name, who.split()[0], comp[k % 4].replace(' ', '_'))
            rp = ctx.replay_file(key, dict(engine='E3', defines=list(defines), routine=routine, ns=ns, nt=nt, inputs=vals, component='%s %s' % (who, comp[k % 4]), native=verdict, detail=info))
            what = '%s: %s of %s differs from the pairwise law for inputs %s | native double run vs extended-precision law: %s %s' % (name, comp[k % 4], who, [round(v, 4) for v in vals][:16], verdict, info[:200])
            if verdict == 'fails':
                ctx.violation(key, what, rp)
                if len(it.pc): rec['status'] = 'VIOLATED'; ctx.queries.append(rec); return None      # a data-dependent path already breaks the law: no need to enumerate the others
            else: ctx.inconclusive.append('%s: solver model does not reproduce natively (%s): %s %s' % (name, verdict, who, comp[k % 4]))
        else:
            ctx.inconclusive.append('%s: solver answered %s on %s of %s after %.0fs' % (name, r, comp[k % 4], who, dt))
    return nproved


def reference(routine, ns, nt, vals):
    """the law in exact rational arithmetic + high-precision square roots (independent of the library)"""
    from decimal import Decimal, getcontext
    getcontext().prec = 50
    V = [Decimal(repr(v)) for v in vals]
    src = []; tgt = []; k = 0
    for j in range(ns): src.append((V[k:k+3], V[k+3], list(V[k+4:k+8]))); k += 8
    for i in range(nt): tgt.append((V[k:k+3], V[k+3], list(V[k+4:k+8]))); k += 8
    es = [list(p[2]) for p in src]; et = [list(p[2]) for p in tgt]
    def pair(p, q):
        d = [q[0][c] - p[0][c] for c in range(3)]
        r = (d[0] * d[0] + d[1] * d[1] + d[2] * d[2]).sqrt()
        return d, r
    if routine in (0, 2, 3, 4):
        for i, t in enumerate(tgt):
            for j, sp in enumerate(src):
                d, r = pair(t, sp)
                for c in range(3):
                    f = t[1] * sp[1] * d[c] / (r * r * r); et[i][c] += f
                    if routine in (0, 3): es[j][c] -= f
                et[i][3] += sp[1] / r
                if routine in (0, 3): es[j][3] += t[1] / r
    else:
        for i in range(nt):
            for j in range(i + 1, nt):
                d, r = pair(tgt[i], tgt[j])
                for c in range(3):
                    f = tgt[i][1] * tgt[j][1] * d[c] / (r * r * r); et[i][c] += f; et[j][c] -= f
                et[i][3] += tgt[j][1] / r; et[j][3] += tgt[i][1] / r
    out = []
    for p in es: out += p
    for p in et: out += p
    return [float(x) for x in out]
