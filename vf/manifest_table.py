def fill(chk, NA):
    chk('C11', 'model_checking',
        'Bounded symbolic model checking of the real index functions: clang IR of the headers translated to C and decided by cbmc (SAT, bit-precise) for every level whose indices fit 62 bits and all coordinates/indices of that level, Morton Dim 1-4 (periodic or not) and Hilbert Dim 3 heights <= 8 (20 thorough); list builders by path-forking symbolic execution (irsym+z3) against the set definition. Unbounded claims are not made: bounds are in the evidence.',
        'Trusted: clang 14 -O1 lowering (tied to the g++ build by a seeded differential run per query), the IR->C translator (same differential run), cbmc 6.11/MiniSat, z3 5.1. Assertions enabled and UBSan traps compiled in as obligations. Outside: levels needing > 62 index bits; list builders above the stated level bounds.',
        'solver-based: cbmc bounded model checking of clang IR translated to C (unwinding assertions) + z3-backed symbolic execution of the IR', 'DESIGN.md section 6 C11', 'E1 ir2c+cbmc, E2 irsym')
    for pid, why in {
        'C04': 'rotation-kernel accuracy is a floating-point truncation-error bound over ~1e4-1e5 dependent FP operations and libm calls (sin/cos/acos/atan2/pow); no solver theory available here decides it within any useful bound (DESIGN.md section 7)',
        'C05': 'uniform-kernel accuracy is a floating-point interpolation-error bound and its M2L goes through FFTW (no IR, no model); not encodable (DESIGN.md section 7)',
    }.items(): NA[pid] = why
    for pid in ['C01','C02','C03','C06','C07','C08','C09','C10','C12','C13','C14','C15','C16','C17','C18','C19','C20']:
        NA.setdefault(pid, 'check under construction in this session (see DESIGN.md section 6); will be claimed when its harness is committed')
