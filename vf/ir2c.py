#!/usr/bin/env python3
"""ir2c: translate textual LLVM-14 IR (typed pointers, clang -O1, no exceptions,
no vector types) into plain C that cbmc's C front end accepts.

Prototype.  Every construct outside the supported subset raises Unsupported,
never silently mistranslates.
"""
import re, sys, hashlib

class Unsupported(Exception):
    pass

# ---------------------------------------------------------------- types
class T:  # base
    pass
class Void(T):
    def __repr__(s): return 'void'
class Int(T):
    def __init__(s, n): s.n = n
    def __repr__(s): return 'i%d' % s.n
class Flt(T):
    def __init__(s, k): s.k = k           # 'float' | 'double'
    def __repr__(s): return s.k
class Ptr(T):
    def __init__(s, e): s.e = e
    def __repr__(s): return repr(s.e) + '*'
class Arr(T):
    def __init__(s, n, e): s.n = n; s.e = e
    def __repr__(s): return '[%d x %r]' % (s.n, s.e)
class Vec(Arr):        # <N x T>: laid out like an array (only load/store/gep/extract/insert are supported, E2 only)
    def __repr__(s): return '<%d x %r>' % (s.n, s.e)
class Named(T):
    def __init__(s, name): s.name = name
    def __repr__(s): return '%' + s.name
class Lit(T):   # literal struct
    def __init__(s, fs, packed): s.fs = fs; s.packed = packed
    def __repr__(s): return ('<{%s}>' if s.packed else '{%s}') % ', '.join(map(repr, s.fs))
class Fn(T):
    def __init__(s, ret, ps, va): s.ret = ret; s.ps = ps; s.va = va
    def __repr__(s): return '%r (%s%s)' % (s.ret, ', '.join(map(repr, s.ps)), ', ...' if s.va else '')

def teq(a, b): return repr(a) == repr(b)

# ---------------------------------------------------------------- lexer
TOK = re.compile(r'''
   \s+
 | (?P<str>c"(?:[^"\\]|\\[0-9A-Fa-f]{2}|\\\\)*")
 | (?P<lname>%(?:"[^"]*"|[-a-zA-Z$._0-9]+))
 | (?P<gname>@(?:"[^"]*"|[-a-zA-Z$._0-9]+))
 | (?P<meta>![-a-zA-Z$._0-9]*(?:\([^)]*\))?)
 | (?P<attrg>\#\d+)
 | (?P<hexf>0x[KLMHR]?[0-9A-Fa-f]+)
 | (?P<num>-?\d+\.\d*(?:[eE][-+]?\d+)?)
 | (?P<int>-?\d+)
 | (?P<dots>\.\.\.)
 | (?P<word>[a-zA-Z_][a-zA-Z0-9_.]*)
 | (?P<p>[()\[\]{}<>,=*])
''', re.X)

def lex(s):
    out = []; i = 0
    while i < len(s):
        m = TOK.match(s, i)
        if not m: raise Unsupported('lex: ' + s[i:i+40])
        i = m.end()
        k = m.lastgroup
        if k is None: continue
        out.append((k, m.group(k)))
    return out

class P:
    """token cursor"""
    def __init__(s, toks): s.t = toks; s.i = 0
    def peek(s, k=0): return s.t[s.i+k] if s.i+k < len(s.t) else ('eof', '')
    def next(s): x = s.peek(); s.i += 1; return x
    def accept(s, v):
        if s.peek()[1] == v: s.i += 1; return True
        return False
    def expect(s, v):
        if not s.accept(v): raise Unsupported('expected %r got %r in %r' % (v, s.peek(), s.t[max(0,s.i-6):s.i+6]))
    def eof(s): return s.i >= len(s.t)

PARAM_ATTRS = {'noundef','nonnull','nocapture','readonly','writeonly','noalias','signext','zeroext',
  'returned','immarg','inreg','nest','readnone','nofree','swiftself','byval','sret','align',
  'dereferenceable','dereferenceable_or_null','inalloca','preallocated','noext'}

def skip_param_attrs(p):
    while True:
        k, v = p.peek()
        if k == 'word' and v in PARAM_ATTRS:
            p.next()
            if p.peek()[1] == '(':          # dereferenceable(24) / sret(%T) / byval(%T) / align(8)
                depth = 0
                while True:
                    x = p.next()[1]
                    if x == '(': depth += 1
                    elif x == ')':
                        depth -= 1
                        if depth == 0: break
            elif v == 'align' and p.peek()[0] == 'int':
                p.next()
        else:
            return

def parse_type(p):
    k, v = p.next()
    if k == 'word':
        if v == 'void': t = Void()
        elif re.fullmatch(r'i\d+', v): t = Int(int(v[1:]))
        elif v in ('float', 'double'): t = Flt(v)
        elif v == 'opaque': t = Lit([], False)
        elif v == 'metadata': t = Void()
        else: raise Unsupported('type word ' + v)
    elif k == 'lname':
        t = Named(uq(v[1:]))
    elif v == '[':
        n = int(p.next()[1]); p.expect('x'); e = parse_type(p); p.expect(']'); t = Arr(n, e)
    elif v == '{':
        fs = []
        if not p.accept('}'):
            while True:
                fs.append(parse_type(p))
                if p.accept('}'): break
                p.expect(',')
        t = Lit(fs, False)
    elif v == '<':
        if p.peek()[1] == '{':
            p.next(); fs = []
            if not p.accept('}'):
                while True:
                    fs.append(parse_type(p))
                    if p.accept('}'): break
                    p.expect(',')
            p.expect('>'); t = Lit(fs, True)
        else:
            n = int(p.next()[1]); p.expect('x'); e = parse_type(p); p.expect('>'); t = Vec(n, e)
    else:
        raise Unsupported('type tok %r' % v)
    while True:
        if p.accept('*'):
            t = Ptr(t)
        elif p.peek()[1] == '(' :
            # function type
            p.next(); ps = []; va = False
            if not p.accept(')'):
                while True:
                    if p.accept('...'): va = True
                    else: ps.append(parse_type(p)); skip_param_attrs(p)
                    if p.accept(')'): break
                    p.expect(',')
            t = Fn(t, ps, va)
        else:
            return t

def uq(n):
    return n[1:-1] if n.startswith('"') else n

# ---------------------------------------------------------------- module
class Module:
    def __init__(s):
        s.structs = {}      # name -> Lit
        s.globals = {}      # name -> (type, init_tokens|None, is_const)
        s.funcs = {}        # name -> Func
        s.decls = {}        # name -> Fn
        s.order = []

class Func:
    def __init__(s, name, ret, params, va):
        s.name = name; s.ret = ret; s.params = params; s.va = va
        s.blocks = []       # [(label, [instr token lists])]

def strip_meta(line):
    # remove trailing ", !tbaa !5" etc. and "#12" attribute groups handled by lexer
    return line

def parse_module(text):
    m = Module()
    lines = text.split('\n')
    i = 0
    while i < len(lines):
        ln = lines[i]; i += 1
        s = ln.strip()
        if not s or s.startswith(';') or s.startswith('source_filename') or s.startswith('target ') \
           or s.startswith('attributes ') or s.startswith('!') or s.startswith('$'):
            continue
        if s.startswith('%') and ' = type ' in s:
            nm, rest = s.split(' = type ', 1)
            p = P(lex(rest)); t = parse_type(p)
            m.structs[uq(nm[1:])] = t
            continue
        if s.startswith('@'):
            parse_global(m, s); continue
        if s.startswith('declare '):
            parse_declare(m, s); continue
        if s.startswith('define '):
            body = []
            while lines[i].strip() != '}':
                body.append(lines[i]); i += 1
            i += 1
            parse_define(m, s, body); continue
        raise Unsupported('toplevel: ' + s[:80])
    return m

LINKAGE = {'private','internal','linkonce_odr','weak_odr','external','dso_local','unnamed_addr',
           'local_unnamed_addr','hidden','common','weak','linkonce','available_externally','constant','global',
           'noundef','nonnull','signext','zeroext','noalias','thread_local','appending','fastcc','ccc','coldcc'}

def parse_global(m, s):
    p = P(lex(s))
    name = uq(p.next()[1][1:]); p.expect('=')
    is_const = False; ext = False
    while p.peek()[0] == 'word' and p.peek()[1] in LINKAGE:
        w = p.next()[1]
        if w == 'constant': is_const = True
        if w == 'external': ext = True
        if w in ('constant', 'global'): break
    t = parse_type(p)
    init = None
    if not ext:
        init = parse_const(p, t)
    m.globals[name] = (t, init, is_const)

def parse_fn_header(p):
    while p.peek()[0] == 'meta': p.next()      # declare !callback !N ...
    while p.peek()[0] == 'word' and (p.peek()[1] in LINKAGE or p.peek()[1] in PARAM_ATTRS):
        skip_param_attrs(p)
        if p.peek()[0] == 'word' and p.peek()[1] in LINKAGE: p.next()
    ret = parse_type_nofn(p)
    name = uq(p.next()[1][1:])
    p.expect('(')
    params = []; va = False
    if not p.accept(')'):
        while True:
            if p.accept('...'): va = True
            else:
                t = parse_type(p); skip_param_attrs(p)
                pn = None
                if p.peek()[0] == 'lname': pn = uq(p.next()[1][1:])
                params.append((t, pn))
            if p.accept(')'): break
            p.expect(',')
    return ret, name, params, va

def parse_type_nofn(p):
    # return type of a define/declare/call: a type not followed by '(' as fn type unless ptr
    save = p.i
    # parse base then stars only
    k, v = p.peek()
    t = parse_type_base(p)
    return t

def parse_type_base(p):
    """type without consuming a trailing '(' function-type suffix"""
    k, v = p.next()
    if k == 'word':
        if v == 'void': t = Void()
        elif re.fullmatch(r'i\d+', v): t = Int(int(v[1:]))
        elif v in ('float', 'double'): t = Flt(v)
        else: raise Unsupported('type word ' + v)
    elif k == 'lname': t = Named(uq(v[1:]))
    elif v in '[{<':
        p.i -= 1; return parse_type_stars_only(p)
    else: raise Unsupported('type tok %r' % v)
    while p.accept('*'): t = Ptr(t)
    return t

def parse_type_stars_only(p):
    # aggregate types: reuse parse_type but it would eat '(' ; aggregates followed by '(' do not occur for returns
    return parse_type(p)

def parse_declare(m, s):
    p = P(lex(s)); p.expect('declare')
    ret, name, params, va = parse_fn_header(p)
    m.decls[name] = Fn(ret, [t for t, _ in params], va)

def parse_define(m, s, body):
    p = P(lex(s)); p.expect('define')
    ret, name, params, va = parse_fn_header(p)
    f = Func(name, ret, params, va)
    # implicit numbering: unnamed params take %0.. and entry block takes next number
    n = 0
    ps = []
    for t, pn in params:
        if pn is None: pn = str(n); n += 1
        elif pn.isdigit(): n = int(pn) + 1
        ps.append((t, pn))
    f.params = ps
    cur = None
    joined = []; acc = None
    for ln in body:
        if acc is not None:
            acc += ' ' + ln.strip()
            if ln.strip().startswith(']'): joined.append('  ' + acc); acc = None
            continue
        if ln.strip().startswith('switch ') and ln.rstrip().endswith('['):
            acc = ln.strip(); continue
        joined.append(ln)
    for ln in joined:
        st = ln.strip()
        if not st or st.startswith(';'): continue
        mm = re.match(r'^([-a-zA-Z$._0-9]+|"[^"]*"):', st)
        if mm and not ln.startswith('  '):
            cur = (uq(mm.group(1)), []); f.blocks.append(cur); continue
        if cur is None:
            cur = (str(n), []); f.blocks.append(cur)
        cur[1].append(lex(st))
    m.funcs[name] = f
    m.order.append(name)

# ---------------------------------------------------------------- constants / values
class V:
    """parsed operand"""
    def __init__(s, kind, ty, a=None, b=None): s.kind = kind; s.ty = ty; s.a = a; s.b = b

def parse_const(p, ty):
    """parse a value of known type ty (constant or local name)"""
    k, v = p.peek()
    if k == 'lname': p.next(); return V('local', ty, uq(v[1:]))
    if k == 'gname': p.next(); return V('global', ty, uq(v[1:]))
    if k == 'int':   p.next(); return V('int', ty, int(v))
    if k == 'num':   p.next(); return V('flt', ty, float(v))
    if k == 'hexf':  p.next(); return V('hexf', ty, v)
    if k == 'str':   p.next(); return V('str', ty, v)
    if k == 'word':
        if v in ('true', 'false'): p.next(); return V('int', ty, 1 if v == 'true' else 0)
        if v == 'null': p.next(); return V('null', ty)
        if v in ('undef', 'poison'): p.next(); return V('undef', ty)
        if v == 'zeroinitializer': p.next(); return V('zero', ty)
        if v == 'getelementptr':
            p.next(); p.accept('inbounds'); p.expect('(')
            bt = parse_type(p); p.expect(',')
            pt = parse_type(p); base = parse_const(p, pt)
            idx = []
            while p.accept(','):
                p.accept('inrange')
                it = parse_type(p); idx.append(parse_const(p, it))
            p.expect(')')
            return V('cgep', ty, (bt, base, idx))
        if v in ('bitcast','ptrtoint','inttoptr','trunc','zext','sext','addrspacecast'):
            p.next(); p.expect('(')
            st = parse_type(p); sv = parse_const(p, st); p.expect('to'); dt = parse_type(p); p.expect(')')
            return V('ccast', dt, (v, sv))
        if v in ('add','sub','mul','and','or','xor','shl','lshr','ashr'):
            p.next()
            while p.peek()[1] in ('nuw','nsw','exact'): p.next()
            p.expect('(')
            t1 = parse_type(p); a = parse_const(p, t1); p.expect(',')
            t2 = parse_type(p); b = parse_const(p, t2); p.expect(')')
            return V('cbin', ty, (v, a, b))
    if v == '{' or (v == '<' and p.peek(1)[1] == '{'):
        packed = (v == '<')
        if packed: p.next()
        p.expect('{'); items = []
        if not p.accept('}'):
            while True:
                t = parse_type(p); items.append(parse_const(p, t))
                if p.accept('}'): break
                p.expect(',')
        if packed: p.expect('>')
        return V('agg', ty, items)
    if v == '[':
        p.next(); items = []
        if not p.accept(']'):
            while True:
                t = parse_type(p); items.append(parse_const(p, t))
                if p.accept(']'): break
                p.expect(',')
        return V('agg', ty, items)
    raise Unsupported('const %r %r' % (k, v))

# ---------------------------------------------------------------- C emission
def cid(n):
    s = re.sub(r'[^A-Za-z0-9_]', '_', n)
    if s != n or len(s) > 60:
        s = s[:40] + '_' + hashlib.md5(n.encode()).hexdigest()[:8]
    return s

UBSAN_KINDS = {0: 'add_overflow', 1: 'builtin_unreachable', 3: 'divrem_overflow', 5: 'float_cast_overflow', 7: 'implicit_conversion',
               8: 'invalid_builtin', 10: 'load_invalid_value', 11: 'missing_return', 12: 'mul_overflow', 13: 'negate_overflow',
               16: 'nonnull_arg', 17: 'nonnull_return', 18: 'out_of_bounds', 19: 'pointer_overflow', 20: 'shift_out_of_bounds',
               21: 'sub_overflow', 22: 'type_mismatch', 23: 'alignment_assumption', 24: 'vla_bound_not_positive'}

class Emit:
    def __init__(s, m, models):
        s.m = m; s.models = models
        s.lit = {}          # repr -> cname for literal structs / arrays / fn typedefs
        s.typedefs = []     # emitted aggregate definitions (ordered)
        s.done = set()
        s.out = []
        s.used_ext = {}

    # ---- types
    def resolve(s, t):
        while isinstance(t, Named): t = s.m.structs[t.name]
        return t

    def ctype(s, t):
        if isinstance(t, Void): return 'void'
        if isinstance(t, Int):
            if t.n == 1: return '_Bool'
            if t.n <= 8: return 'uint8_t'
            if t.n <= 16: return 'uint16_t'
            if t.n <= 32: return 'uint32_t'
            if t.n <= 64: return 'uint64_t'
            if t.n <= 128: return 'unsigned __int128'
            raise Unsupported('int width %d' % t.n)
        if isinstance(t, Flt): return t.k
        if isinstance(t, Ptr):
            e = t.e
            if isinstance(e, Fn): return s.fnptr(e)
            if isinstance(e, Void): return 'void*'
            return s.ctype_fwd(e) + '*'
        if isinstance(t, Named):
            s.need_struct(t); return 'struct S_' + cid(t.name)
        if isinstance(t, Vec): raise Unsupported('vector type in E1')
        if isinstance(t, Lit) or isinstance(t, Arr):
            return s.need_anon(t)
        if isinstance(t, Fn):
            raise Unsupported('bare fn type')
        raise Unsupported('ctype %r' % t)

    def ctype_fwd(s, t):
        """type usable behind a pointer (no completeness needed)"""
        if isinstance(t, Named): return 'struct S_' + cid(t.name)
        return s.ctype(t)

    def fnptr(s, f):
        key = 'F' + repr(f)
        if key not in s.lit:
            nm = 'fn_%s' % hashlib.md5(key.encode()).hexdigest()[:8]
            s.lit[key] = nm
            ps = ', '.join(s.ctype(x) for x in f.ps)
            if f.va: ps = (ps + ', ...') if ps else ''
            elif not ps: ps = 'void'
            s.typedefs.append('typedef %s (*%s)(%s);' % (s.ctype(f.ret), nm, ps))
        return s.lit[key]

    def need_struct(s, t):
        if t.name in s.done: return
        s.done.add(t.name)
        body = s.m.structs[t.name]
        if not isinstance(body, Lit): raise Unsupported('named non-struct')
        fs = ['  %s f%d;' % (s.ctype(ft), i) for i, ft in enumerate(body.fs)]
        if not fs: fs = ['  char _empty;']
        s.typedefs.append('struct S_%s {\n%s\n}%s;' % (cid(t.name), '\n'.join(fs),
                          ' __attribute__((packed))' if body.packed else ''))

    def need_anon(s, t):
        key = repr(t)
        if key in s.lit: return s.lit[key]
        nm = ('struct L_' if isinstance(t, Lit) else 'struct A_') + hashlib.md5(key.encode()).hexdigest()[:8]
        s.lit[key] = nm
        if isinstance(t, Arr):
            if t.n == 0: s.typedefs.append('%s { char _empty; };' % nm)   # flexible/zero arrays: opaque
            else: s.typedefs.append('%s { %s a[%d]; };' % (nm, s.ctype(t.e), t.n))
        else:
            fs = ['  %s f%d;' % (s.ctype(ft), i) for i, ft in enumerate(t.fs)] or ['  char _empty;']
            s.typedefs.append('%s {\n%s\n}%s;' % (nm, '\n'.join(fs), ' __attribute__((packed))' if t.packed else ''))
        return nm

    # ---- values
    def sval(s, v, bits):
        """C expr of v as signed integer of its width"""
        e = s.val(v)
        if bits in (8, 16, 32, 64): return '((int%d_t)%s)' % (bits, e)
        if bits == 1: return '(-(int64_t)%s)' % e
        return 'SEXT(%s,%d)' % (e, bits)

    def wrap(s, e, t):
        """truncate C expr e to int type t"""
        if t.n == 1: return '(_Bool)((%s)&1)' % e
        if t.n in (8, 16, 32, 64, 128): return '((%s)(%s))' % (s.ctype(t), e)
        return '((%s)((%s) & ((((%s)1)<<%d)-1)))' % (s.ctype(t), e, s.ctype(t), t.n)

    def fconst(s, v):
        if v.kind == 'flt':
            return repr(v.a) if v.ty.k == 'double' else '((float)%r)' % v.a
        hx = v.a
        if not re.fullmatch(r'0x[0-9A-Fa-f]+', hx): raise Unsupported('fp const ' + hx)
        bits = int(hx, 16)
        import struct
        d = struct.unpack('<d', struct.pack('<Q', bits))[0]
        if d != d: return '(0.0/0.0)' if v.ty.k == 'double' else '((float)(0.0/0.0))'
        if d in (float('inf'), float('-inf')):
            return ('(1.0/0.0)' if d > 0 else '(-1.0/0.0)')
        r = d.hex()
        return r if v.ty.k == 'double' else '((float)%s)' % r

    def val(s, v):
        k = v.kind
        if k == 'local': return 'v_' + cid(v.a)
        if k == 'global':
            if v.a in s.m.funcs or v.a in s.m.decls:
                s.note_ext(v.a)
                return '((%s)&%s)' % (s.ctype(v.ty), s.fname(v.a))
            return '((%s)&g_%s)' % (s.ctype(v.ty), cid(v.a))
        if k == 'int':
            t = v.ty
            if isinstance(t, Int):
                a = v.a & ((1 << t.n) - 1)
                if t.n == 1: return str(a)
                if t.n > 64: return '((unsigned __int128)%dULL)' % a if a < 2**64 else '((((unsigned __int128)%dULL)<<64)|%dULL)' % (a >> 64, a & (2**64-1))
                return '((%s)%dULL)' % (s.ctype(t), a)
            if isinstance(t, Flt): return '((%s)%d)' % (t.k, v.a)
            raise Unsupported('int const of type %r' % t)
        if k in ('flt', 'hexf'): return s.fconst(v)
        if k == 'null': return '((%s)0)' % s.ctype(v.ty)
        if k == 'undef':
            t = v.ty
            if isinstance(t, (Int, Flt, Ptr)): return '((%s)0)' % s.ctype(t)
            return s.zero_compound(t)
        if k == 'zero':
            t = v.ty
            if isinstance(t, (Int, Flt, Ptr)): return '((%s)0)' % s.ctype(t)
            return s.zero_compound(t)
        if k == 'cgep':
            bt, base, idx = v.a
            return '((%s)%s)' % (s.ctype(v.ty), s.gep(bt, base, idx))
        if k == 'ccast':
            op, sv = v.a
            return s.cast(op, sv, v.ty)
        if k == 'cbin':
            op, a, b = v.a
            return s.binop(op, a, b, v.ty, set())
        if k == 'agg':
            return '((%s)%s)' % (s.ctype(v.ty), s.init(v))
        raise Unsupported('val kind ' + k)

    def zero_compound(s, t):
        return '((%s){0})' % s.ctype(t)

    def init(s, v):
        """brace initializer for global/aggregate constant"""
        t = s.resolve(v.ty)
        if v.kind == 'agg':
            if isinstance(t, Arr): return '{{' + ', '.join(s.init(x) for x in v.a) + '}}'
            return '{' + ', '.join(s.init(x) for x in v.a) + '}'
        if v.kind == 'zero' or v.kind == 'undef':
            if isinstance(t, (Int, Flt, Ptr)): return s.val(v)
            return '{0}'
        if v.kind == 'str':
            raw = v.a[2:-1]; bs = []
            i = 0
            while i < len(raw):
                if raw[i] == '\\':
                    if raw[i+1] == '\\': bs.append(92); i += 2
                    else: bs.append(int(raw[i+1:i+3], 16)); i += 3
                else: bs.append(ord(raw[i])); i += 1
            return '{{' + ','.join(map(str, bs)) + '}}'
        return s.val(v)

    def gep(s, bt, base, idx):
        """C expression (address) for getelementptr"""
        e = '(%s + %s)' % (s.val(base), s.idx(idx[0]))
        t = bt
        expr = '(*%s)' % e
        for ix in idx[1:]:
            rt = s.resolve(t)
            if isinstance(rt, Lit):
                if ix.kind != 'int': raise Unsupported('struct gep non-const')
                expr = '%s.f%d' % (expr, ix.a); t = rt.fs[ix.a]
            elif isinstance(rt, Arr):
                if rt.n == 0:
                    expr = '((%s*)&%s)[%s]' % (s.ctype(rt.e), expr, s.idx(ix))
                else:
                    # index may legitimately equal n (one-past-end pointer): use pointer arithmetic
                    expr = '(*(%s.a + %s))' % (expr, s.idx(ix))
                t = rt.e
            else:
                raise Unsupported('gep into %r' % rt)
        return '(&%s)' % expr

    def idx(s, v):
        if v.kind == 'int': return '(%d)' % v.a
        n = v.ty.n
        return s.sval(v, n)

    def cast(s, op, sv, dt):
        st = sv.ty; e = s.val(sv)
        if op == 'bitcast':
            if isinstance(st, Ptr) and isinstance(dt, Ptr): return '((%s)%s)' % (s.ctype(dt), e)
            if isinstance(st, Int) and isinstance(dt, Flt) or isinstance(st, Flt) and isinstance(dt, Int):
                return 'BITCAST_%s_%s(%s)' % (s.ctype(st).replace(' ', '_'), s.ctype(dt).replace(' ', '_'), e)
            raise Unsupported('bitcast %r -> %r' % (st, dt))
        if op == 'ptrtoint': return s.wrap('(uint64_t)(uintptr_t)%s' % e, dt)
        if op == 'inttoptr': return '((%s)(uintptr_t)%s)' % (s.ctype(dt), e)
        if op == 'trunc': return s.wrap(e, dt)
        if op == 'zext': return '((%s)%s)' % (s.ctype(dt), e)
        if op == 'sext': return s.wrap(s.sval(sv, st.n), dt)
        if op in ('fptrunc', 'fpext'): return '((%s)%s)' % (dt.k, e)
        if op == 'sitofp': return '((%s)%s)' % (dt.k, s.sval(sv, st.n))
        if op == 'uitofp': return '((%s)%s)' % (dt.k, e)
        if op == 'fptosi': return s.wrap('(int64_t)%s' % e, dt)
        if op == 'fptoui': return s.wrap('(uint64_t)%s' % e, dt)
        raise Unsupported('cast ' + op)

    def binop(s, op, a, b, t, flags):
        if isinstance(t, Flt):
            o = {'fadd': '+', 'fsub': '-', 'fmul': '*', 'fdiv': '/'}.get(op)
            if o is None:
                if op == 'frem': return 'fmod(%s,%s)' % (s.val(a), s.val(b))
                raise Unsupported(op)
            return '(%s %s %s)' % (s.val(a), o, s.val(b))
        n = t.n
        A, B = s.val(a), s.val(b)
        W = 'uint64_t' if n <= 64 else 'unsigned __int128'
        if op in ('add', 'sub', 'mul', 'and', 'or', 'xor'):
            o = {'add': '+', 'sub': '-', 'mul': '*', 'and': '&', 'or': '|', 'xor': '^'}[op]
            return s.wrap('(%s)%s %s (%s)%s' % (W, A, o, W, B), t)
        if op == 'shl':  return s.wrap('(%s)%s << %s' % (W, A, B), t)
        if op == 'lshr': return s.wrap('(%s)%s >> %s' % (W, A, B), t)
        if op == 'ashr': return s.wrap('%s >> %s' % (s.sval(a, n), B), t)
        if op == 'udiv': return s.wrap('(%s)%s / (%s)%s' % (W, A, W, B), t)
        if op == 'urem': return s.wrap('(%s)%s %% (%s)%s' % (W, A, W, B), t)
        if op == 'sdiv': return s.wrap('%s / %s' % (s.sval(a, n), s.sval(b, n)), t)
        if op == 'srem': return s.wrap('%s %% %s' % (s.sval(a, n), s.sval(b, n)), t)
        raise Unsupported('binop ' + op)

    def note_ext(s, name):
        if name not in s.m.funcs: s.used_ext[name] = s.m.decls.get(name)

    def fname(s, name):
        if name in s.m.funcs: return 'f_' + cid(name)
        return s.models.get(name, 'x_' + cid(name))

    # ---- functions
    def proto(s, f):
        ps = ', '.join('%s v_%s' % (s.ctype(t), cid(n)) for t, n in f.params) or 'void'
        return '%s f_%s(%s)' % (s.ctype(f.ret), cid(f.name), ps)

    def emit_func(s, f):
        s.curfn = f.name
        o = []
        decl = {}
        s.raw_decls = []
        body = []
        # predecessor -> phi copies
        phis = {}   # (pred,label) -> [(dst, ty, V)]
        parsed = []
        for label, ins in f.blocks:
            pl = []
            for toks in ins:
                try:
                    pl.append(s.parse_instr(toks, decl))
                except Unsupported as ex:
                    raise Unsupported('%s | in %s: %s' % (ex, f.name[:40], ' '.join(t[1] for t in toks)[:300]))
            parsed.append((label, pl))
            for it in pl:
                if it[0] == 'phi':
                    _, dst, ty, inc = it
                    for v, pred in inc:
                        phis.setdefault((pred, label), []).append((dst, ty, v))
        def jump(frm, to):
            cp = phis.get((frm, to), [])
            r = []
            if len(cp) == 1:
                d, ty, v = cp[0]; r.append('v_%s = %s;' % (cid(d), s.val(v)))
            elif cp:
                for i, (d, ty, v) in enumerate(cp):
                    r.append('%s t%d = %s;' % (s.ctype(ty), i, s.val(v)))
                for i, (d, ty, v) in enumerate(cp):
                    r.append('v_%s = t%d;' % (cid(d), i))
            r.append('goto L_%s;' % cid(to))
            return '{ ' + ' '.join(r) + ' }'
        for label, pl in parsed:
            body.append('L_%s: ;' % cid(label))
            for it in pl:
                k = it[0]
                if k == 'phi': continue
                if k == 'stmt': body.append('  ' + it[1])
                elif k == 'br': body.append('  ' + jump(label, it[1]))
                elif k == 'condbr':
                    body.append('  if (%s) %s else %s' % (it[1], jump(label, it[2]), jump(label, it[3])))
                elif k == 'switch':
                    _, e, dflt, cases = it
                    body.append('  switch (%s) {' % e)
                    for cv, lb in cases: body.append('    case %s: %s' % (cv, jump(label, lb)))
                    body.append('    default: %s }' % jump(label, dflt))
                else: raise Unsupported(k)
        o.append(s.proto(f) + ' {')
        for n, ct in decl.items():
            o.append('  %s v_%s;' % (ct, cid(n)))
        for r in s.raw_decls: o.append('  ' + r)
        o.append('  goto L_%s;' % cid(f.blocks[0][0]))
        o += body
        o.append('}')
        return '\n'.join(o)

    def typed(s, p):
        t = parse_type(p); skip_param_attrs(p); return parse_const(p, t)

    def parse_instr(s, toks, decl):
        # strip trailing metadata / attr groups
        cut = len(toks)
        for i, (k, v) in enumerate(toks):
            if k == 'meta' and i > 0 and toks[i-1][1] == ',':
                cut = i - 1; break
        toks = [t for t in toks[:cut] if t[0] != 'attrg']
        p = P(toks)
        dst = None
        if p.peek()[0] == 'lname' and p.peek(1)[1] == '=':
            dst = uq(p.next()[1][1:]); p.next()
        op = p.next()[1]
        def setv(ty, expr):
            decl[dst] = s.ctype(ty)
            return ('stmt', 'v_%s = %s;' % (cid(dst), expr))
        if op in ('tail', 'musttail', 'notail'):
            op = p.next()[1]
        if op == 'ret':
            if p.accept('void'): return ('stmt', 'return;')
            v = s.typed(p); return ('stmt', 'return %s;' % s.val(v))
        if op == 'br':
            if p.accept('label'): return ('br', uq(p.next()[1][1:]))
            c = s.typed(p); p.expect(','); p.expect('label'); a = uq(p.next()[1][1:])
            p.expect(','); p.expect('label'); b = uq(p.next()[1][1:])
            return ('condbr', s.val(c), a, b)
        if op == 'switch':
            c = s.typed(p); p.expect(','); p.expect('label'); d = uq(p.next()[1][1:]); p.expect('[')
            cases = []
            while not p.accept(']'):
                cv = s.typed(p); p.expect(','); p.expect('label'); cases.append((s.val(cv), uq(p.next()[1][1:])))
            return ('switch', s.val(c), d, cases)
        if op == 'unreachable':
            return ('stmt', '__CPROVER_assume(0);')
        if op == 'phi':
            t = parse_type(p); inc = []
            while True:
                p.expect('['); v = parse_const(p, t); p.expect(','); lb = uq(p.next()[1][1:]); p.expect(']')
                inc.append((v, lb))
                if not p.accept(','): break
            decl[dst] = s.ctype(t)
            return ('phi', dst, t, inc)
        if op == 'alloca':
            p.accept('inalloca')
            t = parse_type(p); cnt = None
            while p.accept(','):
                if p.accept('align'): p.next()
                else: cnt = s.typed(p)
            decl[dst] = s.ctype(Ptr(t))
            if cnt is None or cnt.kind == 'int':
                n = 1 if cnt is None else cnt.a
                s.raw_decls.append('%s v_%s__m[%d];' % (s.ctype(t), cid(dst), n))
                return ('stmt', 'v_%s = v_%s__m;' % (cid(dst), cid(dst)))
            return ('stmt', 'v_%s = (%s)__builtin_alloca(sizeof(%s) * %s);' % (cid(dst), s.ctype(Ptr(t)), s.ctype(t), s.val(cnt)))
        if op == 'load':
            p.accept('volatile'); t = parse_type(p); p.expect(','); a = s.typed(p)
            return setv(t, '*%s' % s.val(a))
        if op == 'store':
            p.accept('volatile'); v = s.typed(p); p.expect(','); a = s.typed(p)
            return ('stmt', '*%s = %s;' % (s.val(a), s.val(v)))
        if op == 'getelementptr':
            p.accept('inbounds'); bt = parse_type(p); p.expect(','); base = s.typed(p); idx = []
            while p.accept(','): idx.append(s.typed(p))
            # result type
            t = bt
            for ix in idx[1:]:
                rt = s.resolve(t)
                t = rt.fs[ix.a] if isinstance(rt, Lit) else rt.e
            return setv(Ptr(t), s.gep(bt, base, idx))
        if op in ('add','sub','mul','udiv','sdiv','urem','srem','shl','lshr','ashr','and','or','xor',
                  'fadd','fsub','fmul','fdiv','frem'):
            flags = set()
            while p.peek()[1] in ('nuw','nsw','exact','fast','nnan','ninf','nsz','arcp','contract','afn','reassoc'):
                flags.add(p.next()[1])
            t = parse_type(p); a = parse_const(p, t); p.expect(','); b = parse_const(p, t)
            return setv(t, s.binop(op, a, b, t, flags))
        if op == 'fneg':
            while p.peek()[1] in ('fast','nnan','ninf','nsz','arcp','contract','afn','reassoc'): p.next()
            t = parse_type(p); a = parse_const(p, t); return setv(t, '(-%s)' % s.val(a))
        if op == 'icmp':
            pred = p.next()[1]; t = parse_type(p); a = parse_const(p, t); p.expect(','); b = parse_const(p, t)
            if isinstance(t, Ptr):
                A, B = '(uintptr_t)' + s.val(a), '(uintptr_t)' + s.val(b)
                if pred in ('eq', 'ne'): A, B = s.val(a), s.val(b)
                o = {'eq':'==','ne':'!=','ult':'<','ule':'<=','ugt':'>','uge':'>=','slt':'<','sle':'<=','sgt':'>','sge':'>='}[pred]
                if pred[0] == 's' : A, B = '(intptr_t)' + s.val(a), '(intptr_t)' + s.val(b)
            else:
                o = {'eq':'==','ne':'!=','ult':'<','ule':'<=','ugt':'>','uge':'>=','slt':'<','sle':'<=','sgt':'>','sge':'>='}[pred]
                if pred[0] == 's': A, B = s.sval(a, t.n), s.sval(b, t.n)
                else: A, B = '(uint64_t)' + s.val(a), '(uint64_t)' + s.val(b)
                if t.n > 64: raise Unsupported('wide icmp')
            return setv(Int(1), '(%s %s %s)' % (A, o, B))
        if op == 'fcmp':
            while p.peek()[1] in ('fast','nnan','ninf','nsz','arcp','contract','afn','reassoc'): p.next()
            pred = p.next()[1]; t = parse_type(p); a = parse_const(p, t); p.expect(','); b = parse_const(p, t)
            A, B = s.val(a), s.val(b)
            ordd = '(%s==%s && %s==%s)' % (A, A, B, B)
            base = {'oeq':'==','one':'!=','olt':'<','ole':'<=','ogt':'>','oge':'>=',
                    'ueq':'==','une':'!=','ult':'<','ule':'<=','ugt':'>','uge':'>='}
            if pred == 'ord': e = ordd
            elif pred == 'uno': e = '(!%s)' % ordd
            elif pred == 'true': e = '1'
            elif pred == 'false': e = '0'
            elif pred[0] == 'o': e = '(%s && (%s %s %s))' % (ordd, A, base[pred], B)
            else: e = '(!%s || (%s %s %s))' % (ordd, A, base[pred], B)
            return setv(Int(1), e)
        if op == 'select':
            while p.peek()[1] in ('fast','nnan','ninf','nsz','arcp','contract','afn','reassoc'): p.next()
            c = s.typed(p); p.expect(','); a = s.typed(p); p.expect(','); b = s.typed(p)
            return setv(a.ty, '(%s ? %s : %s)' % (s.val(c), s.val(a), s.val(b)))
        if op in ('bitcast','ptrtoint','inttoptr','trunc','zext','sext','fptrunc','fpext','sitofp','uitofp','fptosi','fptoui'):
            sv = s.typed(p); p.expect('to'); dt = parse_type(p)
            return setv(dt, s.cast(op, sv, dt))
        if op == 'freeze':
            v = s.typed(p); return setv(v.ty, s.val(v))
        if op == 'extractvalue':
            v = s.typed(p); e = s.val(v); t = v.ty
            while p.accept(','):
                i = int(p.next()[1]); rt = s.resolve(t)
                if isinstance(rt, Lit): e = '%s.f%d' % (e, i); t = rt.fs[i]
                else: e = '%s.a[%d]' % (e, i); t = rt.e
            return setv(t, e)
        if op == 'insertvalue':
            agg = s.typed(p); p.expect(','); v = s.typed(p); path = ''
            t = agg.ty
            while p.accept(','):
                i = int(p.next()[1]); rt = s.resolve(t)
                if isinstance(rt, Lit): path += '.f%d' % i; t = rt.fs[i]
                else: path += '.a[%d]' % i; t = rt.e
            decl[dst] = s.ctype(agg.ty)
            return ('stmt', 'v_%s = %s; v_%s%s = %s;' % (cid(dst), s.val(agg), cid(dst), path, s.val(v)))
        if op == 'call':
            while p.peek()[0] == 'word' and (p.peek()[1] in PARAM_ATTRS or p.peek()[1] in
                  ('fastcc','ccc','fast','nnan','ninf','nsz','arcp','contract','afn','reassoc')):
                skip_param_attrs(p)
                if p.peek()[1] in ('fastcc','ccc','fast','nnan','ninf','nsz','arcp','contract','afn','reassoc'): p.next()
            rt = parse_type_base(p)
            # optional full function type for varargs: "i32 (i8*, ...) @printf"
            if p.peek()[1] == '(' and p.peek()[0] == 'p':
                # function type suffix: skip to matching ')' then optional '*'
                depth = 0
                while True:
                    x = p.next()[1]
                    if x == '(': depth += 1
                    elif x == ')':
                        depth -= 1
                        if depth == 0: break
                while p.accept('*'): pass
            k, cv = p.next()
            args = []
            p.expect('(')
            if not p.accept(')'):
                while True:
                    if p.peek()[1] == 'metadata':
                        while p.peek()[1] not in (',', ')'): p.next()
                        args.append(None)
                    else:
                        args.append(s.typed(p))
                    if p.accept(')'): break
                    p.expect(',')
            if k == 'gname':
                name = uq(cv[1:])
                r = s.intrinsic(name, args, rt)
                if r is None:
                    s.note_ext(name)
                    r = '%s(%s)' % (s.fname(name), ', '.join(s.val(a) for a in args))
                if r == '': return ('stmt', ';')
            else:
                fn = Fn(rt, [a.ty for a in args], False)
                r = '((%s)v_%s)(%s)' % (s.fnptr(fn), cid(uq(cv[1:])), ', '.join(s.val(a) for a in args))
            if dst is None or isinstance(rt, Void): return ('stmt', r + ';')
            return setv(rt, r)
        raise Unsupported('instr ' + op)

    def intrinsic(s, name, args, rt):
        if not name.startswith('llvm.'): return None
        if re.match(r'llvm\.(lifetime|experimental\.noalias|dbg|assume|invariant|stacksave|stackrestore|prefetch|donothing)', name):
            if name.startswith('llvm.stacksave'): return '((%s)0)' % s.ctype(rt)
            return ''
        a = [s.val(x) if x is not None else None for x in args]
        if name.startswith('llvm.memcpy'):  return 'memcpy(%s,%s,%s)' % (a[0], a[1], a[2])
        if name.startswith('llvm.memmove'): return 'memmove(%s,%s,%s)' % (a[0], a[1], a[2])
        if name.startswith('llvm.memset'):  return 'memset(%s,%s,%s)' % (a[0], a[1], a[2])
        if name.startswith('llvm.expect'):  return a[0]
        if name.startswith('llvm.trap') or name.startswith('llvm.ubsantrap'):
            kind = 'llvm.trap'
            if 'ubsan' in name:
                kind = 'ubsan ' + (UBSAN_KINDS.get(args[0].a, str(args[0].a)) if args and args[0].kind == 'int' else '?')
            return '__CPROVER_assert(0, "trap: %s in %s")' % (kind, getattr(s, 'curfn', '?')[:70])
        m = re.match(r'llvm\.(abs|smax|smin|umax|umin|ctlz|cttz|ctpop|bswap)\.i(\d+)', name)
        if m:
            f, n = m.group(1), int(m.group(2)); t = Int(n)
            if f == 'abs':  return s.wrap('(%s < 0 ? -(uint64_t)%s : (uint64_t)%s)' % (s.sval(args[0], n), a[0], a[0]), t)
            if f == 'smax': return '(%s > %s ? %s : %s)' % (s.sval(args[0], n), s.sval(args[1], n), a[0], a[1])
            if f == 'smin': return '(%s < %s ? %s : %s)' % (s.sval(args[0], n), s.sval(args[1], n), a[0], a[1])
            if f == 'umax': return '(%s > %s ? %s : %s)' % (a[0], a[1], a[0], a[1])
            if f == 'umin': return '(%s < %s ? %s : %s)' % (a[0], a[1], a[0], a[1])
            if f in ('ctlz', 'cttz', 'ctpop'): return s.wrap('ir_%s(%s,%d)' % (f, a[0], n), t)
        m = re.match(r'llvm\.(sadd|ssub|smul|uadd|usub|umul)\.with\.overflow\.i(\d+)', name)
        if m:
            return '%s(%s, %s)' % (s.ov_helper(m.group(1), int(m.group(2)), rt), a[0], a[1])
        m = re.match(r'llvm\.(sqrt|fabs|floor|ceil|trunc|round|rint|nearbyint|copysign|fma|fmuladd|minnum|maxnum|pow|sin|cos|exp|log)\.f(32|64)', name)
        if m:
            f = m.group(1); suf = 'f' if m.group(2) == '32' else ''
            if f == 'fmuladd': return '(%s * %s + %s)' % (a[0], a[1], a[2])
            f = {'minnum': 'fmin', 'maxnum': 'fmax'}.get(f, f)
            return '%s%s(%s)' % (f, suf, ', '.join(a))
        raise Unsupported('intrinsic ' + name)


    def ov_helper(s, op, n, rt):
        """define (once) a C helper computing {result, overflow-bit} of llvm.<op>.with.overflow.iN"""
        ct = s.ctype(rt)
        nm = 'ir_ov_%s%d_%s' % (op, n, hashlib.md5(ct.encode()).hexdigest()[:6])
        if nm in s.lit: return nm
        s.lit[nm] = nm
        if n not in (8, 16, 32, 64): raise Unsupported('with.overflow width %d' % n)
        ut = 'uint%d_t' % n; st = 'int%d_t' % n
        wide_u = 'unsigned __int128' if n == 64 else 'uint64_t'; wide_s = '__int128' if n == 64 else 'int64_t'
        if op == 'sadd': body = 'r.f0 = (%s)(a + b); r.f1 = (((a ^ r.f0) & (b ^ r.f0)) >> %d) & 1;' % (ut, n - 1)
        elif op == 'ssub': body = 'r.f0 = (%s)(a - b); r.f1 = (((a ^ b) & (a ^ r.f0)) >> %d) & 1;' % (ut, n - 1)
        elif op == 'uadd': body = 'r.f0 = (%s)(a + b); r.f1 = r.f0 < a;' % ut
        elif op == 'usub': body = 'r.f0 = (%s)(a - b); r.f1 = a < b;' % ut
        elif op == 'smul': body = '%s p = (%s)(%s)a * (%s)(%s)b; r.f0 = (%s)p; r.f1 = (p != (%s)(%s)r.f0);' % (wide_s, wide_s, st, wide_s, st, ut, wide_s, st)
        else: body = '%s p = (%s)a * (%s)b; r.f0 = (%s)p; r.f1 = (p >> %d) != 0;' % (wide_u, wide_u, wide_u, ut, n)
        s.typedefs.append('static inline %s %s(%s a, %s b){ %s r; %s return r; }' % (ct, nm, ut, ut, ct, body))
        return nm

    # ---- module
    def emit(s, roots=None):
        m = s.m
        fbodies = []
        for sn, body in m.structs.items():
            if isinstance(body, Lit) and not (len(body.fs) == 0 and sn not in s.done):
                s.need_struct(Named(sn))
        names = list(m.order)
        for n in names:
            fbodies.append(s.emit_func(m.funcs[n]))
        protos = [s.proto(m.funcs[n]) + ';' for n in names]
        gl = []
        for n, (t, init, const) in m.globals.items():
            ct = s.ctype(t)
            if init is None: gl.append('extern %s g_%s;' % (ct, cid(n)))
            else: gl.append('%s%s g_%s = %s;' % ('const ' if const else '', ct, cid(n), s.init(init)))
        ext = []
        for n, fn in s.used_ext.items():
            if n in s.models: continue
            if fn is None: continue
            ps = ', '.join(s.ctype(x) for x in fn.ps) or 'void'
            if fn.va: ps += ', ...'
            ext.append('%s x_%s(%s); /* extern %s */' % (s.ctype(fn.ret), cid(n), ps, n))
        out = ['/* generated by ir2c */', '#include "ir2c_rt.h"']
        fwd = sorted({'struct S_%s;' % cid(n) for n in m.structs})
        out += fwd + s.typedefs + gl + ext + protos + fbodies
        return '\n'.join(out) + '\n'

def main():
    src = open(sys.argv[1]).read()
    m = parse_module(src)
    models = {
        '_Znwm': 'ir_new', '_Znam': 'ir_new', '_ZdlPv': 'ir_delete', '_ZdaPv': 'ir_delete',
        '_ZdlPvm': 'ir_delete_sized', '_ZdaPvm': 'ir_delete_sized',
        '__assert_fail': 'ir_assert_fail',
        '_ZSt20__throw_length_errorPKc': 'ir_throw_str', '_ZSt17__throw_bad_allocv': 'ir_throw',
        '_ZSt28__throw_bad_array_new_lengthv': 'ir_throw', '_ZSt24__throw_out_of_range_fmtPKcz': 'ir_throw_fmt',
        '_ZSt25__throw_bad_function_callv': 'ir_throw', '_ZSt27__throw_bad_optional_accessv': 'ir_throw',
        'memcmp': 'memcmp', 'memchr': 'memchr', 'strlen': 'strlen', 'sqrt': 'sqrt', 'sqrtf': 'sqrtf',
        'getenv': 'ir_getenv', 'abort': 'ir_abort',
    }
    e = Emit(m, models)
    body = e.emit()
    open(sys.argv[2], 'w').write(body)

if __name__ == '__main__':
    main()
