#!/usr/bin/env python3
"""irsym prototype: path-forking symbolic interpreter for the LLVM-14 IR subset parsed by ir2c.
Re-execution based forking: every path is run from the entry following a decision prefix."""
import sys, struct, time, bisect, json, os
import z3
from .ir2c import (parse_module, lex, P, parse_type, parse_const, parse_type_base, skip_param_attrs, uq,
                  Unsupported, Void, Int, Flt, Ptr, Arr, Vec, Named, Lit, Fn, PARAM_ATTRS)

class Violation(Exception):
    def __init__(s, msg, kind='assert', model=None):
        Exception.__init__(s, msg); s.kind = kind; s.model = model
class PathEnd(Exception): pass
class Partial:
    """integer value with some uninitialised bytes (kept bytewise so that copying structs with padding is exact)"""
    __slots__ = ('bs',)
    def __init__(s, bs): s.bs = bs
    def __repr__(s): return 'Partial(%r)' % (s.bs,)
class Undef:
    def __repr__(s): return 'UNDEF'
UNDEF = Undef()
FMF = {'fast','nnan','ninf','nsz','arcp','contract','afn','reassoc'}

def f32(x): return struct.unpack('<f', struct.pack('<f', x))[0]

class Layout:
    def __init__(s, m): s.m = m; s.cache = {}
    def res(s, t):
        while isinstance(t, Named): t = s.m.structs[t.name]
        return t
    def sa(s, t):
        try: return t._sa
        except AttributeError: pass
        k = repr(t)
        r = s.cache.get(k)
        if r is None: r = s.cache[k] = s._sa(t)
        t._sa = r
        return r
    def _sa(s, t):
        t = s.res(t)
        if isinstance(t, Int):
            b = 1 if t.n <= 8 else 2 if t.n <= 16 else 4 if t.n <= 32 else 8 if t.n <= 64 else 16
            return b, b, None
        if isinstance(t, Flt): return (4, 4, None) if t.k == 'float' else (8, 8, None)
        if isinstance(t, (Ptr, Fn)): return 8, 8, None
        if isinstance(t, Vec):
            sz, al, _ = s.sa(t.e); return sz * t.n, sz * t.n, None
        if isinstance(t, Arr):
            sz, al, _ = s.sa(t.e); return sz * t.n, al, None
        if isinstance(t, Lit):
            off = 0; al = 1; offs = []
            for f in t.fs:
                fs, fa, _ = s.sa(f)
                if t.packed: fa = 1
                off = (off + fa - 1) // fa * fa; offs.append(off); off += fs; al = max(al, fa)
            off = (off + al - 1) // al * al
            return off, al, offs
        raise Unsupported('layout %r' % t)
    def size(s, t): return s.sa(t)[0]

# ------------------------------------------------------------------ memory
class Obj:
    __slots__ = ('base', 'size', 'alive', 'kind', 'cells', 'name', 'default', 'seq')
    def __init__(s, base, size, kind, name=''):
        s.base = base; s.size = size; s.alive = True; s.kind = kind; s.cells = {}; s.name = name
        s.default = 0 if kind == 'global' else UNDEF      # bytes never written: zero for globals, uninitialised otherwise

class Mem:
    def __init__(s):
        s.bases = []; s.objs = []; s.next = 0x100000; s.nalloc = 0
    def alloc(s, size, kind, name='', align=16):
        base = (s.next + 63) // 64 * 64
        if kind == 'heap': base += 16          # operator new guarantees 16, not more
        elif align < 64: base += (align if align >= 1 else 1) * (1 if (64 // max(align, 1)) > 1 else 0)   # exactly the requested alignment
        s.next = base + max(size, 1) + 64
        o = Obj(base, size, kind, name); o.seq = s.nalloc; s.bases.append(base); s.objs.append(o); s.nalloc += 1
        return o
    def find(s, addr, n, what):
        i = bisect.bisect_right(s.bases, addr) - 1
        if i < 0: raise Violation('%s of %d bytes at invalid address 0x%x' % (what, n, addr))
        o = s.objs[i]
        if addr + n > o.base + o.size: raise Violation('%s of %d bytes out of bounds: object %s size %d offset %d' % (what, n, o.kind + ':' + o.name, o.size, addr - o.base))
        if not o.alive: raise Violation('%s of dead %s object %s' % (what, o.kind, o.name))
        return o, addr - o.base
    def store(s, addr, n, v):
        o, off = s.find(addr, n, 'store')
        c = o.cells
        if c:
            for k in range(max(0, off - 15), off + n):
                e = c.get(k)
                if e is not None and k + e[0] > off and k != off:
                    s.split(o, k)
            e = c.get(off)
            if e is not None and e[0] > n: s.split(o, off)
            elif e is not None and e[0] < n:
                pass
            for k in range(off + 1, off + n):
                if k in c: del c[k]
        c[off] = (n, v)
    def split(s, o, k):
        n, v = o.cells.pop(k)
        bs = tobytes(v, n)
        for i, b in enumerate(bs): o.cells[k + i] = (1, b)
    def load(s, addr, n):
        o, off = s.find(addr, n, 'load')
        e = o.cells.get(off)
        if e is not None and e[0] == n: return e[1]
        # slow path: assemble from bytes
        bs = []
        k = off
        while k < off + n:
            e = o.cells.get(k)
            if e is None:
                # maybe inside a wider cell
                found = False
                for j in range(k - 1, max(-1, k - 16), -1):
                    e2 = o.cells.get(j)
                    if e2 is not None:
                        if j + e2[0] > k:
                            bb = tobytes(e2[1], e2[0]); bs.append(bb[k - j]); found = True
                        break
                if not found: bs.append(o.default)
                k += 1
            else:
                bb = tobytes(e[1], e[0])
                take = min(len(bb), off + n - k)
                bs.extend(bb[:take]); k += take
        return frombytes(bs, n)

def tobytes(v, n):
    if isinstance(v, int): return [(v >> (8 * i)) & 0xFF for i in range(n)]
    if isinstance(v, float):
        raw = struct.pack('<f', v) if n == 4 else struct.pack('<d', v)
        return list(raw)
    if v is UNDEF: return [UNDEF] * n
    if isinstance(v, Partial): return list(v.bs)
    if z3.is_bool(v): return [z3.If(v, z3.BitVecVal(1, 8), z3.BitVecVal(0, 8))] + [0] * (n - 1)
    if isinstance(v, z3.BitVecRef): return [z3.Extract(8 * i + 7, 8 * i, v) for i in range(n)]
    raise Unsupported('tobytes %r' % (v,))

def tobytes_any(v, n):
    return tobytes(v, n)


def frombytes(bs, n):
    if all(isinstance(b, int) for b in bs):
        return sum(b << (8 * i) for i, b in enumerate(bs))
    if all(b is UNDEF for b in bs): return UNDEF
    if any(b is UNDEF for b in bs): return Partial(list(bs))
    parts = [b if isinstance(b, z3.BitVecRef) else z3.BitVecVal(b, 8) for b in bs]
    return z3.simplify(z3.Concat(*reversed(parts))) if len(parts) > 1 else parts[0]

# ------------------------------------------------------------------ interpreter
class Interp:
    def __init__(s, m, concrete_syms=None, budget=5_000_000):
        s.m = m; s.L = Layout(m); s.dec = {}
        s.stats = dict(instr=0, solver_calls=0, solver_s=0.0, proved=0)
        s.solver = z3.Solver(); s.budget = budget
        s.concrete_syms = concrete_syms      # list of ints: irsym_symbolic_u64 returns these (concrete replay / differential mode)
        s.reach = {}                         # assertion id -> times reached
        s.hooks = {}                         # external name -> python callable(interp, args) (mock runtimes)
        s.trace_mem = None                   # when a list: (kind, addr, n) of every load/store (C03 footprints, C12 write sets)
        s.fnaddr = {}; s.addrfn = {}
        for i, n in enumerate(list(m.funcs) + list(m.decls)):
            s.fnaddr[n] = 0x1000 + 16 * i; s.addrfn[0x1000 + 16 * i] = n

    # ---- path control
    def start_path(s, prefix):
        s.mem = Mem(); s.prefix = prefix; s.dpos = 0; s.decisions = []; s.pending = []
        s.pc = []; s.solver.reset(); s.symcount = 0; s.gaddr = {}; s.heap_live = {}
        s.path_instr = 0; s.choices = []; s.syms = []; s.obs_hash = 0; s.nobs = 0; s.known = {}; s.notes = []
        s.path_checks = 0; s.logs = {}
        first = not hasattr(s, 'gimage')
        if first: s.gimage = {}
        for n, (t, init, const) in s.m.globals.items():
            if init is None: continue
            o = s.mem.alloc(s.L.size(t), 'global', n, 64); s.gaddr[n] = o.base
        for n, (t, init, const) in s.m.globals.items():
            if init is None: continue
            o = s.mem.objs[bisect.bisect_right(s.mem.bases, s.gaddr[n]) - 1]
            if first:
                s.init_global(s.gaddr[n], t, init)
                s.gimage[n] = (o.cells, const)
                if not const: o.cells = dict(o.cells)
            else:
                img, cst = s.gimage[n]
                o.cells = img if cst else dict(img)      # constant globals share their (never written) image

    def init_global(s, addr, t, v):
        t = s.L.res(t)
        if v.kind in ('zero', 'undef'):
            return            # global objects read as zero where never written (Obj.default)
        if v.kind == 'agg':
            if isinstance(t, Arr):
                es = s.L.size(t.e)
                for i, x in enumerate(v.a): s.init_global(addr + i * es, t.e, x)
            else:
                offs = s.L.sa(t)[2]
                for i, x in enumerate(v.a): s.init_global(addr + offs[i], t.fs[i], x)
            return
        if v.kind == 'str':
            raw = v.a[2:-1]; i = 0; k = 0
            while i < len(raw):
                if raw[i] == '\\':
                    if raw[i+1] == '\\': b = 92; i += 2
                    else: b = int(raw[i+1:i+3], 16); i += 3
                else: b = ord(raw[i]); i += 1
                s.mem.store(addr + k, 1, b); k += 1
            return
        s.mem.store(addr, s.L.size(t), s.const(v))

    def zero(s, addr, t):
        t = s.L.res(t)
        if isinstance(t, Arr):
            es = s.L.size(t.e)
            for i in range(t.n): s.zero(addr + i * es, t.e)
        elif isinstance(t, Lit):
            offs = s.L.sa(t)[2]
            for i, f in enumerate(t.fs): s.zero(addr + offs[i], f)
        elif isinstance(t, Flt): s.mem.store(addr, s.L.size(t), 0.0)
        else: s.mem.store(addr, s.L.size(t), 0)

    def fcmp_sym(s, pred, a, b):
        raise Unsupported('symbolic fcmp')

    def decide(s, n, feas):
        """choose among n alternatives; feas(i) -> bool feasibility (may be None = no solver needed)"""
        if s.dpos < len(s.prefix):
            d = s.prefix[s.dpos]; s.dpos += 1; s.decisions.append(d); return d
        opts = [i for i in range(n) if feas is None or feas(i)]
        if not opts: raise PathEnd('infeasible')
        for alt in opts[1:]: s.pending.append(s.decisions + [alt])
        s.dpos += 1; s.decisions.append(opts[0]); return opts[0]

    def check(s, extra):
        t0 = time.time(); s.solver.push(); s.solver.add(extra); r = s.solver.check(); s.solver.pop()
        s.stats['solver_calls'] += 1; s.stats['solver_s'] += time.time() - t0
        if r == z3.unknown: raise Unsupported('solver unknown')
        return r == z3.sat

    def branch(s, c):
        """c: python int/bool or z3 BoolRef -> bool taken"""
        if isinstance(c, int): return bool(c)
        if c is UNDEF: raise Violation('branch on uninitialised value')
        if isinstance(c, Partial): raise Violation('branch on partially uninitialised value', 'uninit')
        if not z3.is_bool(c): c = (c != 0)
        c = z3.simplify(c)
        if z3.is_true(c): return True
        if z3.is_false(c): return False
        k = c.get_id()
        hit = s.known.get(k)
        if hit is not None: return hit[0]
        if s.dpos < len(s.prefix):
            d = s.prefix[s.dpos]; s.dpos += 1; s.decisions.append(d)
        else:
            f0 = s.check(c)
            f1 = True if not f0 else s.check(z3.Not(c))
            if not f0 and not f1: raise PathEnd('infeasible')
            d = 0 if f0 else 1
            if f0 and f1: s.pending.append(s.decisions + [1])
            s.dpos += 1; s.decisions.append(d)
        cc = c if d == 0 else z3.Not(c)
        s.pc.append(cc); s.solver.add(cc); s.known[k] = (d == 0, c)
        return d == 0

    # ---- values
    def const(s, v):
        k = v.kind; t = v.ty
        if k == 'int':
            if isinstance(t, Flt): return float(v.a)
            return v.a & ((1 << t.n) - 1)
        if k == 'flt': return f32(v.a) if t.k == 'float' else v.a
        if k == 'hexf':
            d = struct.unpack('<d', struct.pack('<Q', int(v.a, 16)))[0]
            return f32(d) if t.k == 'float' else d
        if k == 'null': return 0
        if k == 'undef':
            if isinstance(s.L.res(t), (Int, Ptr, Flt)): return UNDEF
            return s.zero_agg(t, UNDEF)
        if k == 'zero':
            rt = s.L.res(t)
            if isinstance(rt, Flt): return 0.0
            if isinstance(rt, (Int, Ptr)): return 0
            return s.zero_agg(t, 0)
        if k == 'global':
            if v.a in s.fnaddr: return s.fnaddr[v.a]
            return s.gaddr[v.a]
        if k == 'cgep':
            bt, base, idx = v.a
            return s.gep(bt, s.const(base), [s.const(i) for i in idx], idx)
        if k == 'ccast':
            op, sv = v.a
            return s.cast(op, s.const(sv), sv.ty, v.ty)
        if k == 'agg': return [s.const(x) for x in v.a]
        raise Unsupported('const ' + k)

    def zero_agg(s, t, z):
        t = s.L.res(t)
        if isinstance(t, Arr): return [s.zero_agg(t.e, z) for _ in range(t.n)]
        if isinstance(t, Lit): return [s.zero_agg(f, z) for f in t.fs]
        if isinstance(t, Flt): return 0.0 if z == 0 else z
        return z

    def gep(s, bt, base, idxv, idxops):
        if not isinstance(base, int): raise Unsupported('symbolic pointer base')
        def sidx(x, op):
            n = op.ty.n
            if not isinstance(x, int): raise Unsupported('symbolic gep index')
            return x - (1 << n) if x >> (n - 1) else x
        addr = base + sidx(idxv[0], idxops[0]) * s.L.size(bt)
        t = bt
        for x, op in zip(idxv[1:], idxops[1:]):
            rt = s.L.res(t)
            if isinstance(rt, Lit):
                addr += s.L.sa(rt)[2][x]; t = rt.fs[x]
            else:
                addr += sidx(x, op) * s.L.size(rt.e); t = rt.e
        return addr & ((1 << 64) - 1)

    def cast(s, op, x, st, dt):
        if x is UNDEF: return UNDEF
        if isinstance(x, Partial):
            if op == 'trunc' and isinstance(dt, Int) and dt.n % 8 == 0: return frombytes(x.bs[:dt.n // 8], dt.n // 8)
            if op in ('bitcast', 'inttoptr', 'ptrtoint') : return x
            return UNDEF
        if op in ('bitcast',):
            if isinstance(st, Ptr) and isinstance(dt, Ptr): return x
            if isinstance(x, z3.ExprRef): return z3.fpToIEEEBV(x) if z3.is_fp(x) else x          # symbolic bit pattern
            if isinstance(st, Int) and isinstance(dt, Flt):
                return struct.unpack('<f' if dt.k == 'float' else '<d', x.to_bytes(4 if dt.k == 'float' else 8, 'little'))[0]
            if isinstance(st, Flt) and isinstance(dt, Int):
                return int.from_bytes(struct.pack('<f' if st.k == 'float' else '<d', x), 'little')
            raise Unsupported('bitcast')
        if op in ('ptrtoint', 'inttoptr'):
            n = (dt.n if op == 'ptrtoint' else 64)
            if isinstance(x, int): return x & ((1 << n) - 1)
            raise Unsupported('symbolic pointer cast')
        if op == 'trunc':
            if isinstance(x, int): return x & ((1 << dt.n) - 1)
            if dt.n == 1: return z3.Extract(0, 0, x) == z3.BitVecVal(1, 1)
            return z3.Extract(dt.n - 1, 0, x)
        if op == 'zext':
            if isinstance(x, int): return x
            if z3.is_bool(x): return z3.If(x, z3.BitVecVal(1, dt.n), z3.BitVecVal(0, dt.n))
            return z3.ZeroExt(dt.n - st.n, x)
        if op == 'sext':
            if isinstance(x, int): return (x - (1 << st.n) if x >> (st.n - 1) else x) & ((1 << dt.n) - 1)
            if z3.is_bool(x): return z3.If(x, z3.BitVecVal(-1, dt.n), z3.BitVecVal(0, dt.n))
            return z3.SignExt(dt.n - st.n, x)
        if isinstance(x, (z3.ExprRef,)):
            # symbolic conversions (IEEE, exact SMT semantics): integer <-> float round trips of symbolic payload values. FP values live as z3 FP terms in
            # registers and as their IEEE bit-vector in memory; arithmetic on them stays outside the interpreter.
            fs = lambda t: z3.Float32() if t.k == 'float' else z3.Float64()
            if op in ('sitofp', 'uitofp'):
                if z3.is_bool(x): x = z3.If(x, z3.BitVecVal(1, st.n), z3.BitVecVal(0, st.n))
                return z3.fpSignedToFP(z3.RNE(), x, fs(dt)) if op == 'sitofp' else z3.fpUnsignedToFP(z3.RNE(), x, fs(dt))
            if op in ('fptosi', 'fptoui', 'fpext', 'fptrunc'):
                if not z3.is_fp(x): x = z3.fpBVToFP(x, fs(st))
                if op == 'fptosi': return z3.fpToSBV(z3.RTZ(), x, z3.BitVecSort(dt.n))
                if op == 'fptoui': return z3.fpToUBV(z3.RTZ(), x, z3.BitVecSort(dt.n))
                return z3.fpFPToFP(z3.RNE(), x, fs(dt))
            raise Unsupported('symbolic fp cast')
        if op == 'fpext': return float(x)
        if op == 'fptrunc': return f32(x)
        if op == 'sitofp':
            v = x - (1 << st.n) if x >> (st.n - 1) else x
            return f32(float(v)) if dt.k == 'float' else float(v)
        if op == 'uitofp': return f32(float(x)) if dt.k == 'float' else float(x)
        if op in ('fptosi', 'fptoui'):
            return int(x) & ((1 << dt.n) - 1)
        raise Unsupported('cast ' + op)

    def binop(s, op, a, b, t):
        if a is UNDEF or b is UNDEF or isinstance(a, Partial) or isinstance(b, Partial): return UNDEF
        if isinstance(t, Flt):
            if not (isinstance(a, float) and isinstance(b, float)): raise Unsupported('symbolic fp arithmetic')
            r = {'fadd': lambda: a + b, 'fsub': lambda: a - b, 'fmul': lambda: a * b,
                 'fdiv': lambda: (a / b if b != 0 else (float('inf') if a > 0 else float('-inf') if a < 0 else float('nan')))}[op]()
            return f32(r) if t.k == 'float' else r
        n = t.n; M = (1 << n) - 1
        if isinstance(a, int) and isinstance(b, int):
            sg = lambda x: x - (1 << n) if x >> (n - 1) else x
            if op == 'add': return (a + b) & M
            if op == 'sub': return (a - b) & M
            if op == 'mul': return (a * b) & M
            if op == 'and': return a & b
            if op == 'or': return a | b
            if op == 'xor': return a ^ b
            if op == 'shl': return (a << b) & M if b < n else UNDEF
            if op == 'lshr': return a >> b if b < n else UNDEF
            if op == 'ashr': return (sg(a) >> b) & M if b < n else UNDEF
            if op == 'udiv':
                if b == 0: raise Violation('division by zero')
                return a // b
            if op == 'urem':
                if b == 0: raise Violation('division by zero')
                return a % b
            if op in ('sdiv', 'srem'):
                if b == 0: raise Violation('division by zero')
                x, y = sg(a), sg(b); q = abs(x) // abs(y); q = q if (x < 0) == (y < 0) else -q
                return (q if op == 'sdiv' else x - q * y) & M
            raise Unsupported(op)
        # symbolic
        if n == 1:
            A = a if not isinstance(a, int) else z3.BoolVal(bool(a)); B = b if not isinstance(b, int) else z3.BoolVal(bool(b))
            if op == 'and': return z3.And(A, B)
            if op == 'or': return z3.Or(A, B)
            if op == 'xor': return z3.Xor(A, B)
            raise Unsupported('i1 ' + op)
        A = a if not isinstance(a, int) else z3.BitVecVal(a, n); B = b if not isinstance(b, int) else z3.BitVecVal(b, n)
        r = {'add': lambda: A + B, 'sub': lambda: A - B, 'mul': lambda: A * B, 'and': lambda: A & B, 'or': lambda: A | B,
             'xor': lambda: A ^ B, 'shl': lambda: A << B, 'lshr': lambda: z3.LShR(A, B), 'ashr': lambda: A >> B,
             'udiv': lambda: z3.UDiv(A, B), 'urem': lambda: z3.URem(A, B), 'sdiv': lambda: A / B, 'srem': lambda: z3.SRem(A, B)}[op]()
        return r

    def icmp(s, pred, a, b, t):
        if a is UNDEF or b is UNDEF or isinstance(a, Partial) or isinstance(b, Partial): return UNDEF
        n = t.n if isinstance(t, Int) else 64
        if isinstance(a, int) and isinstance(b, int):
            if pred[0] == 's':
                a = a - (1 << n) if a >> (n - 1) else a; b = b - (1 << n) if b >> (n - 1) else b
            return int({'eq': a == b, 'ne': a != b, 'ult': a < b, 'ule': a <= b, 'ugt': a > b, 'uge': a >= b,
                        'slt': a < b, 'sle': a <= b, 'sgt': a > b, 'sge': a >= b}[pred])
        if n == 1:
            A = a if not isinstance(a, int) else z3.BoolVal(bool(a)); B = b if not isinstance(b, int) else z3.BoolVal(bool(b))
            if pred == 'eq': return A == B
            if pred == 'ne': return A != B
            raise Unsupported('i1 icmp ' + pred)
        A = a if not isinstance(a, int) else z3.BitVecVal(a, n); B = b if not isinstance(b, int) else z3.BitVecVal(b, n)
        return {'eq': lambda: A == B, 'ne': lambda: A != B, 'ult': lambda: z3.ULT(A, B), 'ule': lambda: z3.ULE(A, B),
                'ugt': lambda: z3.UGT(A, B), 'uge': lambda: z3.UGE(A, B), 'slt': lambda: A < B, 'sle': lambda: A <= B,
                'sgt': lambda: A > B, 'sge': lambda: A >= B}[pred]()

    # ---- decoding
    def decode_fn(s, f):
        blocks = {}
        for label, ins in f.blocks:
            blocks[label] = [s.decode(toks) for toks in ins]
        return blocks

    def typed(s, p):
        t = parse_type(p); skip_param_attrs(p); return parse_const(p, t)

    def decode(s, toks):
        cut = len(toks)
        for i, (k, v) in enumerate(toks):
            if k == 'meta' and i > 0 and toks[i-1][1] == ',': cut = i - 1; break
        toks = [t for t in toks[:cut] if t[0] != 'attrg']
        p = P(toks); dst = None
        if p.peek()[0] == 'lname' and p.peek(1)[1] == '=':
            dst = uq(p.next()[1][1:]); p.next()
        op = p.next()[1]
        if op in ('tail', 'musttail', 'notail'): op = p.next()[1]
        if op == 'ret':
            if p.accept('void'): return ('ret', None)
            return ('ret', s.typed(p))
        if op == 'br':
            if p.accept('label'): return ('br', uq(p.next()[1][1:]))
            c = s.typed(p); p.expect(','); p.expect('label'); a = uq(p.next()[1][1:]); p.expect(','); p.expect('label'); b = uq(p.next()[1][1:])
            return ('cbr', c, a, b)
        if op == 'switch':
            c = s.typed(p); p.expect(','); p.expect('label'); d = uq(p.next()[1][1:]); p.expect('['); cases = []
            while not p.accept(']'):
                cv = s.typed(p); p.expect(','); p.expect('label'); cases.append((cv.a & ((1 << cv.ty.n) - 1), uq(p.next()[1][1:])))
            return ('switch', c, d, cases)
        if op == 'unreachable': return ('unreachable',)
        if op == 'phi':
            t = parse_type(p); inc = {}
            while True:
                p.expect('['); v = parse_const(p, t); p.expect(','); lb = uq(p.next()[1][1:]); p.expect(']'); inc[lb] = v
                if not p.accept(','): break
            return ('phi', dst, inc)
        if op == 'alloca':
            p.accept('inalloca'); t = parse_type(p); cnt = None; al = 1
            while p.accept(','):
                if p.accept('align'): al = int(p.next()[1])
                else: cnt = s.typed(p)
            return ('alloca', dst, t, cnt, al)
        if op == 'load':
            p.accept('volatile'); t = parse_type(p); p.expect(','); a = s.typed(p); al = 1
            if p.accept(',') and p.accept('align'): al = int(p.next()[1])
            return ('load', dst, t, a, al)
        if op == 'store':
            p.accept('volatile'); v = s.typed(p); p.expect(','); a = s.typed(p); al = 1
            if p.accept(',') and p.accept('align'): al = int(p.next()[1])
            return ('store', v, a, al)
        if op == 'getelementptr':
            p.accept('inbounds'); bt = parse_type(p); p.expect(','); base = s.typed(p); idx = []
            while p.accept(','): idx.append(s.typed(p))
            return ('gep', dst, bt, base, idx)
        if op in ('add','sub','mul','udiv','sdiv','urem','srem','shl','lshr','ashr','and','or','xor','fadd','fsub','fmul','fdiv'):
            while p.peek()[1] in ('nuw','nsw','exact') or p.peek()[1] in FMF: p.next()
            t = parse_type(p); a = parse_const(p, t); p.expect(','); b = parse_const(p, t)
            return ('bin', dst, op, t, a, b)
        if op == 'fneg':
            while p.peek()[1] in FMF: p.next()
            t = parse_type(p); a = parse_const(p, t); return ('fneg', dst, t, a)
        if op == 'icmp':
            pred = p.next()[1]; t = parse_type(p); a = parse_const(p, t); p.expect(','); b = parse_const(p, t)
            return ('icmp', dst, pred, t, a, b)
        if op == 'fcmp':
            while p.peek()[1] in FMF: p.next()
            pred = p.next()[1]; t = parse_type(p); a = parse_const(p, t); p.expect(','); b = parse_const(p, t)
            return ('fcmp', dst, pred, a, b)
        if op == 'select':
            while p.peek()[1] in FMF: p.next()
            c = s.typed(p); p.expect(','); a = s.typed(p); p.expect(','); b = s.typed(p); return ('select', dst, c, a, b)
        if op in ('bitcast','ptrtoint','inttoptr','trunc','zext','sext','fptrunc','fpext','sitofp','uitofp','fptosi','fptoui'):
            sv = s.typed(p); p.expect('to'); dt = parse_type(p); return ('cast', dst, op, sv, dt)
        if op == 'freeze':
            v = s.typed(p); return ('copy', dst, v)
        if op == 'extractelement':
            v = s.typed(p); p.expect(','); i = s.typed(p); return ('extractelement', dst, v, i)
        if op == 'insertelement':
            v = s.typed(p); p.expect(','); e = s.typed(p); p.expect(','); i = s.typed(p); return ('insertelement', dst, v, e, i)
        if op == 'extractvalue':
            v = s.typed(p); path = []
            while p.accept(','): path.append(int(p.next()[1]))
            return ('extractvalue', dst, v, path)
        if op == 'insertvalue':
            agg = s.typed(p); p.expect(','); v = s.typed(p); path = []
            while p.accept(','): path.append(int(p.next()[1]))
            return ('insertvalue', dst, agg, v, path)
        if op == 'call':
            while p.peek()[0] == 'word' and (p.peek()[1] in PARAM_ATTRS or p.peek()[1] in ('fastcc','ccc') or p.peek()[1] in FMF):
                skip_param_attrs(p)
                if p.peek()[1] in ('fastcc','ccc') or p.peek()[1] in FMF: p.next()
            rt = parse_type_base(p)
            if p.peek()[1] == '(' and p.peek()[0] == 'p':
                depth = 0
                while True:
                    x = p.next()[1]
                    if x == '(': depth += 1
                    elif x == ')':
                        depth -= 1
                        if depth == 0: break
                while p.accept('*'): pass
            k, cv = p.next(); args = []; p.expect('(')
            if not p.accept(')'):
                while True:
                    if p.peek()[1] == 'metadata':
                        while p.peek()[1] not in (',', ')'): p.next()
                        args.append(None)
                    else: args.append(s.typed(p))
                    if p.accept(')'): break
                    p.expect(',')
            return ('call', dst, rt, (k, uq(cv[1:])), args)
        raise Unsupported('instr ' + op)

    # ---- execution
    def val(s, env, v):
        if v.kind == 'local':
            return env[v.a]
        return s.const(v)

    def call(s, name, args):
        f = s.m.funcs.get(name)
        if f is None: return s.external(name, args)
        blocks = s.dec.get(name)
        if blocks is None: blocks = s.dec[name] = s.decode_fn(f)
        env = {pn: a for (t, pn), a in zip(f.params, args)}
        frame_objs = []
        cur = f.blocks[0][0]; prev = None
        mem = s.mem
        try:
            while True:
                ins = blocks[cur]
                # phis first (parallel)
                i = 0
                if ins and ins[0][0] == 'phi':
                    vals = []
                    while i < len(ins) and ins[i][0] == 'phi':
                        vals.append((ins[i][1], s.val(env, ins[i][2][prev]))); i += 1
                    for d, v in vals: env[d] = v
                s.path_instr += len(ins)
                if s.path_instr > s.budget: raise Violation('instruction budget %d exhausted (non-termination?) in %s' % (s.budget, name[:80]), 'budget')
                for it in ins[i:]:
                    op = it[0]
                    if op == 'bin':
                        env[it[1]] = s.binop(it[2], s.val(env, it[4]), s.val(env, it[5]), it[3])
                    elif op == 'load':
                        a = s.val(env, it[3]); t = s.L.res(it[2])
                        if not isinstance(a, int):
                            if a is UNDEF or isinstance(a, Partial): raise Violation('load through uninitialised pointer in ' + name[:60], 'uninit')
                            raise Unsupported('load from symbolic address')
                        if a % it[4]: raise Violation('misaligned load (align %d) at offset of %s in %s' % (it[4], s.describe(a), name[:60]), 'align')
                        if s.trace_mem is not None: s.trace_mem.append(('r', a, s.L.size(t)))
                        if isinstance(t, (Arr, Lit)): env[it[1]] = s.load_agg(a, t)
                        else:
                            env[it[1]] = s.load_scalar(a, t)
                    elif op == 'store':
                        a = s.val(env, it[2]); t = s.L.res(it[1].ty); v = s.val(env, it[1])
                        if not isinstance(a, int):
                            if a is UNDEF or isinstance(a, Partial): raise Violation('store through uninitialised pointer in ' + name[:60], 'uninit')
                            raise Unsupported('store to symbolic address')
                        if a % it[3]: raise Violation('misaligned store (align %d) at %s in %s' % (it[3], s.describe(a), name[:60]), 'align')
                        if s.trace_mem is not None: s.trace_mem.append(('w', a, s.L.size(t)))
                        if isinstance(t, (Arr, Lit)): s.store_agg(a, t, v)
                        else:
                            if z3.is_bool(v) if isinstance(v, z3.ExprRef) else False: v = z3.If(v, z3.BitVecVal(1, 8), z3.BitVecVal(0, 8))
                            elif isinstance(v, z3.ExprRef) and z3.is_fp(v): v = z3.fpToIEEEBV(v)
                            mem.store(a, s.L.size(t), v)
                    elif op == 'gep':
                        idx = it[4]
                        env[it[1]] = s.gep(it[2], s.val(env, it[3]), [s.val(env, x) for x in idx], idx)
                    elif op == 'icmp':
                        env[it[1]] = s.icmp(it[2], s.val(env, it[4]), s.val(env, it[5]), it[3])
                    elif op == 'cast':
                        env[it[1]] = s.cast(it[2], s.val(env, it[3]), it[3].ty, it[4])
                    elif op == 'br':
                        prev, cur = cur, it[1]; break
                    elif op == 'cbr':
                        c = s.val(env, it[1])
                        prev, cur = cur, (it[2] if s.branch(c) else it[3]); break
                    elif op == 'call':
                        kind, cname = it[3]
                        args2 = [s.val(env, a) if a is not None else None for a in it[4]]
                        if kind != 'gname':
                            fa = env[cname]; cname = s.addrfn.get(fa)
                            if cname is None: raise Violation('indirect call through invalid pointer')
                        r = s.call(cname, args2)
                        if it[1] is not None: env[it[1]] = r
                    elif op == 'select':
                        c = s.val(env, it[2]); a = s.val(env, it[3]); b = s.val(env, it[4])
                        if isinstance(c, int): env[it[1]] = a if c else b
                        elif c is UNDEF or isinstance(c, Partial): env[it[1]] = UNDEF
                        else:
                            if isinstance(a, float) or isinstance(b, float) or isinstance(a, list):
                                env[it[1]] = a if s.branch(c) else b
                            else:
                                n = it[3].ty.n if isinstance(it[3].ty, Int) else 64
                                if n == 1:
                                    A = a if not isinstance(a, int) else z3.BoolVal(bool(a)); B = b if not isinstance(b, int) else z3.BoolVal(bool(b))
                                else:
                                    A = a if not isinstance(a, int) else z3.BitVecVal(a, n); B = b if not isinstance(b, int) else z3.BitVecVal(b, n)
                                if isinstance(it[3].ty, Ptr): env[it[1]] = a if s.branch(c) else b
                                else: env[it[1]] = z3.If(c, A, B)
                    elif op == 'alloca':
                        n = 1 if it[3] is None else s.val(env, it[3])
                        if not isinstance(n, int): raise Unsupported('symbolic alloca size')
                        o = mem.alloc(s.L.size(it[2]) * n, 'stack', name[:90] + '%' + it[1], it[4]); frame_objs.append(o)
                        env[it[1]] = o.base
                    elif op == 'ret':
                        return None if it[1] is None else s.val(env, it[1])
                    elif op == 'switch':
                        c = s.val(env, it[1])
                        if not isinstance(c, int): raise Unsupported('symbolic switch')
                        tgt = it[2]
                        for cv, lb in it[3]:
                            if cv == c: tgt = lb; break
                        prev, cur = cur, tgt; break
                    elif op == 'fcmp':
                        a = s.val(env, it[3]); b = s.val(env, it[4]); pred = it[2]
                        if not (isinstance(a, float) and isinstance(b, float)):
                            env[it[1]] = s.fcmp_sym(pred, a, b); continue
                        un = a != a or b != b
                        base = {'eq': a == b, 'ne': a != b, 'lt': a < b, 'le': a <= b, 'gt': a > b, 'ge': a >= b}
                        if pred == 'ord': r = not un
                        elif pred == 'uno': r = un
                        elif pred[0] == 'o': r = (not un) and base[pred[1:]]
                        else: r = un or base[pred[1:]]
                        env[it[1]] = int(r)
                    elif op == 'fneg': env[it[1]] = -s.val(env, it[3])
                    elif op == 'copy': env[it[1]] = s.val(env, it[2])
                    elif op == 'extractvalue':
                        v = s.val(env, it[2])
                        for k in it[3]: v = v[k]
                        env[it[1]] = v
                    elif op == 'insertvalue':
                        import copy
                        agg = copy.deepcopy(s.val(env, it[2])); v = s.val(env, it[3]); tgt = agg
                        for k in it[4][:-1]: tgt = tgt[k]
                        tgt[it[4][-1]] = v; env[it[1]] = agg
                    elif op == 'extractelement':
                        v = s.val(env, it[2]); i = s.val(env, it[3])
                        if not isinstance(i, int): raise Unsupported('symbolic vector index')
                        env[it[1]] = v[i]
                    elif op == 'insertelement':
                        v = list(s.val(env, it[2])); i = s.val(env, it[4])
                        if not isinstance(i, int): raise Unsupported('symbolic vector index')
                        v[i] = s.val(env, it[3]); env[it[1]] = v
                    elif op == 'unreachable':
                        raise Violation('unreachable executed in ' + name)
                    else:
                        raise Unsupported('exec ' + op)
                else:
                    raise Unsupported('block without terminator')
        finally:
            for o in frame_objs: o.alive = False

    def load_scalar(s, a, t):
        v = s.mem.load(a, s.L.size(t))
        if isinstance(t, Flt) and isinstance(v, int): v = s.cast('bitcast', v, Int(32 if t.k == 'float' else 64), t)
        elif isinstance(t, Int) and isinstance(v, float): v = int.from_bytes(struct.pack('<f' if t.n == 32 else '<d', v), 'little')
        elif isinstance(t, Int) and t.n == 1 and isinstance(v, int): v &= 1
        return v

    def load_agg(s, a, t):
        if isinstance(t, Arr):
            es = s.L.size(t.e); et = s.L.res(t.e)
            return [s.load_agg(a + i * es, et) if isinstance(et, (Arr, Lit)) else s.load_scalar(a + i * es, et) for i in range(t.n)]
        offs = s.L.sa(t)[2]; out = []
        for f, o in zip(t.fs, offs):
            ft = s.L.res(f)
            out.append(s.load_agg(a + o, ft) if isinstance(ft, (Arr, Lit)) else s.load_scalar(a + o, ft))
        return out

    def store_agg(s, a, t, v):
        if isinstance(t, Arr):
            es = s.L.size(t.e); et = s.L.res(t.e)
            for i in range(t.n):
                if isinstance(et, (Arr, Lit)): s.store_agg(a + i * es, et, v[i])
                else: s.mem.store(a + i * es, es, v[i])
            return
        offs = s.L.sa(t)[2]
        for f, o, x in zip(t.fs, offs, v):
            ft = s.L.res(f)
            if isinstance(ft, (Arr, Lit)): s.store_agg(a + o, ft, x)
            else: s.mem.store(a + o, s.L.size(ft), x)

    @staticmethod
    def keys_in(o, off, n, margin=0):
        """cell offsets of object o that start in [off-margin, off+n): by range probing for small ranges, by scanning for large ones"""
        c = o.cells
        if (n + margin) * 2 < len(c):
            return [k for k in range(max(0, off - margin), off + n) if k in c]
        lo = off - margin; hi = off + n
        return [k for k in c if lo <= k < hi]

    def split_straddlers(s, o, off, n):
        for k in s.keys_in(o, off, n, 15):
            e = o.cells.get(k)
            if e is None: continue
            if (k < off < k + e[0]) or (k < off + n < k + e[0]): s.mem.split(o, k)

    def memcpy(s, d, sr, n):
        if not (isinstance(d, int) and isinstance(sr, int) and isinstance(n, int)): raise Unsupported('symbolic memcpy')
        if n == 0: return
        if s.trace_mem is not None: s.trace_mem.append(('r', sr, n)); s.trace_mem.append(('w', d, n))
        so, soff = s.mem.find(sr, n, 'memcpy read'); do, doff = s.mem.find(d, n, 'memcpy write')
        s.split_straddlers(so, soff, n)
        items = [(k - soff, so.cells[k]) for k in s.keys_in(so, soff, n)]
        if so.default is not UNDEF:
            # bytes of a zero-default object that were never written read as zero: materialise them in the copy
            covered = set()
            for rel, e in items: covered.update(range(rel, rel + e[0]))
            items += [(r, (1, so.default)) for r in range(n) if r not in covered]
        s.split_straddlers(do, doff, n)
        for k in s.keys_in(do, doff, n): del do.cells[k]
        for rel, e in items: do.cells[doff + rel] = e

    def external(s, name, a):
        if name.startswith('llvm.'):
            if name.startswith(('llvm.lifetime', 'llvm.experimental.noalias', 'llvm.dbg', 'llvm.assume', 'llvm.stackrestore')): return None
            if name.startswith('llvm.stacksave'): return 0
            if name.startswith(('llvm.memcpy', 'llvm.memmove')): s.memcpy(a[0], a[1], a[2]); return None
            if name.startswith('llvm.memset'):
                if not all(isinstance(x, int) for x in a[:3]): raise Unsupported('symbolic memset')
                if a[2]:
                    if s.trace_mem is not None: s.trace_mem.append(('w', a[0], a[2]))
                    o, off = s.mem.find(a[0], a[2], 'memset')
                    s.split_straddlers(o, off, a[2])
                    for k in s.keys_in(o, off, a[2]): del o.cells[k]
                    n = a[2]; k = off
                    w = (a[1] & 0xFF) * 0x0101010101010101
                    while n >= 8 and k % 8 == 0: o.cells[k] = (8, w); k += 8; n -= 8
                    while n: o.cells[k] = (1, a[1] & 0xFF); k += 1; n -= 1
                return None
            if name.startswith('llvm.expect'): return a[0]
            for f in ('abs', 'smax', 'smin', 'umax', 'umin', 'ctlz', 'cttz'):
                if name.startswith('llvm.%s.i' % f):
                    n = int(name.split('.i')[-1]); x = a[0]
                    if not all(isinstance(v, int) for v in a[:2] if v is not None):
                        if f in ('ctlz', 'cttz'): raise Unsupported('symbolic ' + name)
                        X = x if not isinstance(x, int) else z3.BitVecVal(x, n)
                        if f == 'abs': return z3.If(X < 0, -X, X)
                        Y = a[1] if not isinstance(a[1], int) else z3.BitVecVal(a[1], n)
                        if f == 'smax': return z3.If(X > Y, X, Y)
                        if f == 'smin': return z3.If(X < Y, X, Y)
                        if f == 'umax': return z3.If(z3.UGT(X, Y), X, Y)
                        if f == 'umin': return z3.If(z3.ULT(X, Y), X, Y)
                    sg = lambda v: v - (1 << n) if v >> (n - 1) else v
                    if f == 'abs': return abs(sg(x)) & ((1 << n) - 1)
                    if f == 'smax': return x if sg(x) > sg(a[1]) else a[1]
                    if f == 'smin': return x if sg(x) < sg(a[1]) else a[1]
                    if f == 'umax': return max(x, a[1])
                    if f == 'umin': return min(x, a[1])
                    if f == 'ctlz': return n - x.bit_length()
                    if f == 'cttz': return n if x == 0 else (x & -x).bit_length() - 1
            import re as _re
            mo = _re.match(r'llvm\.(sadd|ssub|smul|uadd|usub|umul)\.with\.overflow\.i(\d+)', name)
            if mo:
                opn, n = mo.group(1), int(mo.group(2)); M = (1 << n) - 1
                x, y = a[0], a[1]
                if x is UNDEF or y is UNDEF: return [UNDEF, UNDEF]
                if isinstance(x, int) and isinstance(y, int):
                    sg = lambda v: v - (1 << n) if v >> (n - 1) else v
                    if opn[0] == 's':
                        r = {'sadd': sg(x) + sg(y), 'ssub': sg(x) - sg(y), 'smul': sg(x) * sg(y)}[opn]
                        return [r & M, int(not (-(1 << (n - 1)) <= r < (1 << (n - 1))))]
                    r = {'uadd': x + y, 'usub': x - y, 'umul': x * y}[opn]
                    return [r & M, int(not (0 <= r <= M))]
                X = x if not isinstance(x, int) else z3.BitVecVal(x, n); Y = y if not isinstance(y, int) else z3.BitVecVal(y, n)
                if opn == 'sadd': return [X + Y, z3.Not(z3.And(z3.BVAddNoOverflow(X, Y, True), z3.BVAddNoUnderflow(X, Y)))]
                if opn == 'ssub': return [X - Y, z3.Not(z3.And(z3.BVSubNoOverflow(X, Y), z3.BVSubNoUnderflow(X, Y, True)))]
                if opn == 'smul': return [X * Y, z3.Not(z3.And(z3.BVMulNoOverflow(X, Y, True), z3.BVMulNoUnderflow(X, Y)))]
                if opn == 'uadd': return [X + Y, z3.Not(z3.BVAddNoOverflow(X, Y, False))]
                if opn == 'usub': return [X - Y, z3.ULT(X, Y)]
                return [X * Y, z3.Not(z3.BVMulNoOverflow(X, Y, False))]
            if name.startswith(('llvm.trap', 'llvm.ubsantrap')):
                from .ir2c import UBSAN_KINDS
                kind = UBSAN_KINDS.get(a[0], str(a[0])) if name.startswith('llvm.ubsantrap') and a and isinstance(a[0], int) else 'llvm.trap'
                raise Violation('undefined behaviour trap: %s' % kind, 'ub')
            for f in ('fmuladd', 'fma', 'sqrt', 'fabs', 'floor', 'ceil', 'trunc', 'rint', 'nearbyint', 'round', 'copysign', 'minnum', 'maxnum'):
                if name.startswith('llvm.%s.f' % f):
                    if not all(isinstance(x, float) for x in a if x is not None): raise Unsupported('symbolic fp intrinsic ' + name)
                    import math
                    is32 = name.endswith('f32')
                    if f in ('fmuladd', 'fma'):
                        r = (f32(a[0] * a[1]) if is32 else a[0] * a[1]) + a[2]      # unfused, as the x86-64 builds without FMA evaluate it
                    elif f == 'sqrt':
                        if a[0] < 0: r = float('nan')
                        else: r = math.sqrt(a[0])
                    elif f == 'fabs': r = abs(a[0])
                    elif f == 'floor': r = float(math.floor(a[0])) if a[0] == a[0] and abs(a[0]) != float('inf') else a[0]
                    elif f == 'ceil': r = float(math.ceil(a[0])) if a[0] == a[0] and abs(a[0]) != float('inf') else a[0]
                    elif f == 'trunc': r = float(int(a[0])) if a[0] == a[0] and abs(a[0]) != float('inf') else a[0]
                    elif f in ('rint', 'nearbyint'): r = float(round(a[0])) if a[0] == a[0] and abs(a[0]) != float('inf') else a[0]
                    elif f == 'round': r = math.copysign(math.floor(abs(a[0]) + 0.5), a[0]) if a[0] == a[0] and abs(a[0]) != float('inf') else a[0]
                    elif f == 'copysign': r = math.copysign(a[0], a[1])
                    elif f == 'minnum': r = min(a[0], a[1])
                    else: r = max(a[0], a[1])
                    return f32(r) if is32 else r
            raise Unsupported('intrinsic ' + name)
        if name in ('_Znwm', '_Znam'):
            if not isinstance(a[0], int): raise Unsupported('symbolic allocation size')
            o = s.mem.alloc(a[0], 'heap', 'new#%d' % s.mem.nalloc); s.heap_live[o.base] = o; return o.base
        if name in ('_ZdlPv', '_ZdaPv', '_ZdlPvm', '_ZdaPvm'):
            if a[0] == 0: return None
            o = s.heap_live.pop(a[0], None)
            if o is None: raise Violation('delete of non-heap or already freed pointer')
            o.alive = False; return None
        if name == '__assert_fail': raise Violation('library assert() failed: %s (%s:%s)' % (s.cstring(a[0]), s.cstring(a[1]).split('/')[-1], a[2]), 'libassert')
        if name in ('sqrt', 'sqrtf'):
            if not isinstance(a[0], float): raise Unsupported('symbolic sqrt')
            import math
            r = math.sqrt(a[0]) if a[0] >= 0 else float('nan'); return f32(r) if name == 'sqrtf' else r
        if name == 'abort': raise Violation('abort() called', 'libassert')
        if name.startswith('_ZSt') and 'throw' in name: raise Violation('C++ exception: ' + name)
        if name == 'getenv': return 0
        if name == '_ZNSt6thread20hardware_concurrencyEv':
            # the number of hardware threads is part of the environment: forked over {1, 2, 16}; concrete runs use this machine's value
            if s.concrete_syms is not None: return os.cpu_count() or 1
            return (1, 2, 16)[s.decide(3, None)]
        if name.startswith('_ZSt29_Rb_tree_insert_and_rebalance'):
            # libstdc++.so function (no IR): link the node without rebalancing - every std::set/map operation is correct on any binary search tree shape
            left, x, p, h = a[0], a[1], a[2], a[3]
            if not all(isinstance(v, int) for v in (left, x, p, h)): raise Unsupported('symbolic red-black tree insertion')
            st = s.mem.store; ld = s.mem.load
            st(x + 8, 8, p); st(x + 16, 8, 0); st(x + 24, 8, 0); st(x, 4, 0)
            if left & 1:
                st(p + 16, 8, x)
                if p == h: st(h + 8, 8, x); st(h + 24, 8, x); st(x, 4, 1)
                elif p == ld(h + 16, 8): st(h + 16, 8, x)
            else:
                st(p + 24, 8, x)
                if p == ld(h + 24, 8): st(h + 24, 8, x)
            return None
        if name in ('_ZSt18_Rb_tree_incrementPSt18_Rb_tree_node_base', '_ZSt18_Rb_tree_incrementPKSt18_Rb_tree_node_base'):
            ld = s.mem.load; x = a[0]
            if ld(x + 24, 8) != 0:
                x = ld(x + 24, 8)
                while ld(x + 16, 8) != 0: x = ld(x + 16, 8)
            else:
                y = ld(x + 8, 8)
                while x == ld(y + 24, 8): x = y; y = ld(y + 8, 8)
                if ld(x + 24, 8) != y: x = y
            return x
        if name in ('_ZSt18_Rb_tree_decrementPSt18_Rb_tree_node_base', '_ZSt18_Rb_tree_decrementPKSt18_Rb_tree_node_base'):
            ld = s.mem.load; x = a[0]
            if ld(x, 4) == 0 and ld(ld(x + 8, 8) + 8, 8) == x and ld(x + 8, 8) != 0: x = ld(x + 24, 8)
            elif ld(x + 16, 8) != 0:
                y = ld(x + 16, 8)
                while ld(y + 24, 8) != 0: y = ld(y + 24, 8)
                x = y
            else:
                y = ld(x + 8, 8)
                while x == ld(y + 16, 8): x = y; y = ld(y + 8, 8)
                x = y
            return x
        if name in ('bcmp', 'memcmp'):
            if not all(isinstance(x, int) for x in a[:3]): raise Unsupported('symbolic ' + name)
            n = a[2]
            if n == 0: return 0
            x = tobytes_any(s.mem.load(a[0], n), n) if n <= 16 else [s.mem.load(a[0] + i, 1) for i in range(n)]
            y = tobytes_any(s.mem.load(a[1], n), n) if n <= 16 else [s.mem.load(a[1] + i, 1) for i in range(n)]
            if any(b is UNDEF for b in x + y): raise Violation(name + ' reads uninitialised bytes', 'uninit')
            if all(isinstance(b, int) for b in x + y):
                for p, q in zip(x, y):
                    if p != q: return (1 if p > q else 0xFFFFFFFF)
                return 0
            if name == 'memcmp': raise Unsupported('memcmp on symbolic bytes')
            eq = z3.And([(p if not isinstance(p, int) else z3.BitVecVal(p, 8)) == (q if not isinstance(q, int) else z3.BitVecVal(q, 8)) for p, q in zip(x, y)])
            return z3.If(eq, z3.BitVecVal(0, 32), z3.BitVecVal(1, 32))
        h = s.hooks.get(name)
        if h is not None: return h(s, a)
        if name == 'irsym_choose':
            n = a[0]
            if not isinstance(n, int) or n <= 0: raise Unsupported('irsym_choose with symbolic/non-positive count')
            d = s.decide(n, None); s.choices.append(d); return d
        if name == 'irsym_symbolic_u64':
            k = len(s.syms)
            if s.concrete_syms is not None:
                v = s.concrete_syms[k] if k < len(s.concrete_syms) else 0
            else:
                v = z3.BitVec('sym%d' % k, 64)
            s.syms.append(v); return v
        if name == 'irsym_assume':
            c = a[0]
            if isinstance(c, int):
                if not c: raise PathEnd('assume false')
                return None
            if not s.branch(c): raise PathEnd('assume false')
            return None
        if name == 'irsym_assert':
            c = a[0]; aid = a[1]
            s.reach[aid] = s.reach.get(aid, 0) + 1
            if isinstance(c, int):
                if not c:
                    # the failing condition is concrete on this path; the symbols still matter for the replay: take a model of the path condition
                    model = None
                    if s.syms and s.concrete_syms is None:
                        s.stats['solver_calls'] += 1
                        if s.solver.check() == z3.sat:
                            mdl = s.solver.model(); model = [mdl.eval(v, model_completion=True).as_long() if not isinstance(v, int) else v for v in s.syms]
                    raise Violation('harness assertion %d failed' % aid, 'assert', model)
                return None
            if c is UNDEF or isinstance(c, Partial): raise Violation('harness assertion %d evaluated on uninitialised data' % aid, 'uninit')
            c = c if z3.is_bool(c) else c != 0
            c = z3.simplify(c)
            if z3.is_true(c):
                s.stats['proved'] += 1; return None
            t0 = time.time(); s.solver.push(); s.solver.add(z3.Not(c)); r = s.solver.check()
            s.stats['solver_calls'] += 1
            if r == z3.sat:
                mdl = s.solver.model(); model = [mdl.eval(v, model_completion=True).as_long() if not isinstance(v, int) else v for v in s.syms]
                s.solver.pop(); s.stats['solver_s'] += time.time() - t0
                raise Violation('harness assertion %d fails for some values of the symbolic inputs' % aid, 'assert', model)
            s.solver.pop(); s.stats['solver_s'] += time.time() - t0
            if r == z3.unknown: raise Unsupported('solver answered unknown on assertion %d' % aid)
            s.stats['proved'] += 1
            return None
        if name == 'irsym_observe':
            v = a[0]
            if isinstance(v, int):
                s.obs_hash = (((s.obs_hash ^ v) * 0x100000001b3) + 0x9e3779b97f4a7c15) & (2**64 - 1); s.nobs += 1
            return None
        if name == 'irsym_note':
            if len(s.notes) < 64: s.notes.append((a[0], a[1] if isinstance(a[1], int) else str(a[1])[:60]))
            return None
        if name == 'irsym_log':
            if not all(isinstance(x, int) for x in a[:6]): raise Unsupported('irsym_log with symbolic fields')
            s.logs.setdefault(a[0], []).append(tuple(a[1:6])); return None
        if name == 'irsym_logs_equal':
            return 1 if sorted(s.logs.get(a[0], [])) == sorted(s.logs.get(a[1], [])) else 0
        if name == 'irsym_log_count':
            if a[1] >= 1000: return sum(1 for e in s.logs.get(a[0], []) if e[0] in (2, 3, 4) and e[1] < a[1] - 1000)
            return sum(1 for e in s.logs.get(a[0], []) if e[0] == a[1])
        if name == 'irsym_log_clear':
            s.logs[a[0]] = []; return None
        if name == 'irsym_is_symbolic_run': return 0 if s.concrete_syms is not None else 1
        raise Unsupported('external ' + name)

    def cstring(s, addr, maxlen=200):
        out = []
        try:
            while len(out) < maxlen:
                b = s.mem.load(addr + len(out), 1)
                if not isinstance(b, int) or b == 0: break
                out.append(chr(b))
        except Violation:
            pass
        return ''.join(out)

    def describe(s, addr):
        i = bisect.bisect_right(s.mem.bases, addr) - 1
        if i < 0: return '0x%x' % addr
        o = s.mem.objs[i]
        return '%s:%s+%d' % (o.kind, o.name, addr - o.base)


# ---------------------------------------------------------------------------------- exploration
_G = {}


def _worker_init(ll_path, opts):
    if _G.get('ll_path') != ll_path:      # normally inherited from the parent through fork
        _G['m'] = parse_module(open(ll_path).read()); _G['ll_path'] = ll_path
    _G['opts'] = opts
    it = Interp(_G['m'], budget=opts.get('budget', 5_000_000))
    if opts.get('hooks'):
        import importlib
        mod = importlib.import_module(opts['hooks'])
        mod.install(it, opts)
    _G['it'] = it


def run_one(it, entry, args, prefix):
    """run one path; returns (status, info dict)"""
    it.start_path(prefix)
    hk = getattr(it, 'path_start_hook', None)
    if hk: hk(it)
    info = {}
    try:
        it.call(entry, [(a & (2**64 - 1)) if isinstance(a, int) else a for a in args])
        hk = getattr(it, 'path_end_hook', None)
        if hk: hk(it)
        if it.heap_live:
            o = next(iter(it.heap_live.values()))
            raise Violation('leak: %d heap block(s) still allocated when the harness returns (first: %s, %d bytes)' % (len(it.heap_live), o.name, o.size), 'leak')
        status = 'ok'
    except PathEnd as e:
        status = 'end'
    except Violation as e:
        status = 'violation'; info = dict(kind=e.kind, msg=str(e)[:600], model=e.model)
    except Unsupported as e:
        status = 'unsupported'; info = dict(msg=str(e)[:300])
    except RecursionError:
        status = 'unsupported'; info = dict(msg='python recursion limit')
    return status, info


def _subtree(task):
    entry, args, prefix, batch, deadline = task
    it = _G['it']
    work = [prefix]; res = dict(paths=0, ok=0, ended=0, instr=0, violations=[], unsupported=[], samples=[], reach={}, solver_calls=0, solver_s=0.0, proved=0)
    sc0, ss0, pr0 = it.stats['solver_calls'], it.stats['solver_s'], it.stats['proved']
    it.reach = {}
    while work and res['paths'] < batch and time.time() < deadline:
        p = work.pop()
        st, info = run_one(it, entry, args, p)
        work.extend(it.pending); res['paths'] += 1; res['instr'] += it.path_instr
        if st == 'ok':
            res['ok'] += 1
            if len(res['samples']) < 2: res['samples'].append(dict(choices=list(it.choices), decisions=len(it.decisions), instr=it.path_instr, notes=it.notes[:12]))
        elif st == 'end': res['ended'] += 1
        elif st == 'violation':
            if len(res['violations']) < 20:
                info.update(choices=list(it.choices), decisions=list(it.decisions), nsyms=len(it.syms)); res['violations'].append(info)
            else: res['violations_more'] = res.get('violations_more', 0) + 1
        else:
            if len(res['unsupported']) < 5: res['unsupported'].append(info['msg'])
    res['left'] = work
    res['reach'] = dict(it.reach)
    res['solver_calls'] = it.stats['solver_calls'] - sc0; res['solver_s'] = it.stats['solver_s'] - ss0; res['proved'] = it.stats['proved'] - pr0
    return res


def explore(ll_path, entry, args, jobs=None, budget=5_000_000, time_limit=600, batch=24, hooks=None, hook_opts=None, max_paths=10**9, stop_on_violation=False):
    """explore all paths of entry(args) in the IR file; returns aggregate dict"""
    import multiprocessing as mp
    jobs = jobs or (os.cpu_count() or 4)
    opts = dict(budget=budget, hooks=hooks); opts.update(hook_opts or {})
    if _G.get('ll_path') != ll_path:
        _G['m'] = parse_module(open(ll_path).read()); _G['ll_path'] = ll_path      # parse once; Unsupported propagates to the caller
    check_globals(_G['m'])
    t0 = time.time(); deadline = t0 + time_limit
    agg = dict(paths=0, ok=0, ended=0, instr=0, violations=[], unsupported=[], samples=[], reach={}, solver_calls=0, solver_s=0.0, proved=0,
               exhaustive=True, violations_total=0)
    ctxm = mp.get_context('fork')
    with ctxm.Pool(jobs, initializer=_worker_init, initargs=(ll_path, opts)) as pool:
        # seed: explore sequentially a little to get a frontier, then fan out
        pendingq = [[]]; inflight = []
        while pendingq or inflight:
            while pendingq and len(inflight) < jobs * 2 and time.time() < deadline and agg['paths'] < max_paths:
                p = pendingq.pop()
                b = 1 if agg['paths'] + len(inflight) < jobs * 2 else batch
                inflight.append(pool.apply_async(_subtree, ((entry, args, p, b, deadline),)))
            if not inflight: break
            done = [f for f in inflight if f.ready()]
            if not done:
                inflight[0].wait(0.05); continue
            for f in done:
                inflight.remove(f)
                r = f.get()
                for k in ('paths', 'ok', 'ended', 'instr', 'solver_calls', 'solver_s', 'proved'): agg[k] += r[k]
                agg['violations_total'] += len(r['violations']) + r.get('violations_more', 0)
                for v in r['violations']:
                    if len(agg['violations']) < 50: agg['violations'].append(v)
                for u in r['unsupported']:
                    if len(agg['unsupported']) < 10: agg['unsupported'].append(u)
                for sm in r['samples']:
                    if len(agg['samples']) < 4: agg['samples'].append(sm)
                for k, v in r['reach'].items(): agg['reach'][k] = agg['reach'].get(k, 0) + v
                pendingq.extend(r['left'])
            if stop_on_violation and agg['violations']:
                break
            if (time.time() >= deadline or agg['paths'] >= max_paths) and not inflight: break
        if pendingq or inflight: agg['exhaustive'] = False
        agg['pending_left'] = len(pendingq)
        pool.terminate()
    agg['wall'] = time.time() - t0
    return agg


def check_globals(m):
    g = m.globals.get('llvm.global_ctors')
    if g is not None and g[1] is not None and g[1].kind == 'agg' and len(g[1].a):
        raise Unsupported('module has dynamic initialisers (llvm.global_ctors); harness globals must be constant-initialised')


def run_concrete(m, entry, args, choices, syms, budget=20_000_000, hooks=None, hook_opts=None):
    """one fully concrete run (differential self-check / replay inside the interpreter)"""
    it = Interp(m, concrete_syms=list(syms), budget=budget)
    if hooks:
        import importlib
        importlib.import_module(hooks).install(it, hook_opts or {})
    st, info = run_one(it, entry, args, list(choices))
    return st, info, it


if __name__ == '__main__':
    r = explore(sys.argv[1], sys.argv[2], [int(x) for x in sys.argv[3:]])
    r['violations'] = r['violations'][:3]
    print(json.dumps(r, indent=1, default=str))
