#!/usr/bin/env python3
"""irsym prototype: path-forking symbolic interpreter for the LLVM-14 IR subset parsed by ir2c.
Re-execution based forking: every path is run from the entry following a decision prefix."""
import sys, struct, time, bisect, json
import z3
from ir2c import (parse_module, lex, P, parse_type, parse_const, parse_type_base, skip_param_attrs, uq,
                  Unsupported, Void, Int, Flt, Ptr, Arr, Named, Lit, Fn, PARAM_ATTRS)

class Violation(Exception): pass
class PathEnd(Exception): pass
class Undef:
    def __repr__(s): return 'UNDEF'
UNDEF = Undef()
FMF = {'fast','nnan','ninf','nsz','arcp','contract','afn','reassoc'}

def f32(x): return struct.unpack('<f', struct.pack('<f', x))[0]

class Layout:
    def __init__(s, m): s.m = m; s.cache = {}
    def res(s, t):
        while isinstance(t, Named): t = s.m.structs[t.name]
        return t
    def sa(s, t):
        k = repr(t)
        r = s.cache.get(k)
        if r is None: r = s.cache[k] = s._sa(t)
        return r
    def _sa(s, t):
        t = s.res(t)
        if isinstance(t, Int):
            b = 1 if t.n <= 8 else 2 if t.n <= 16 else 4 if t.n <= 32 else 8 if t.n <= 64 else 16
            return b, b, None
        if isinstance(t, Flt): return (4, 4, None) if t.k == 'float' else (8, 8, None)
        if isinstance(t, (Ptr, Fn)): return 8, 8, None
        if isinstance(t, Arr):
            sz, al, _ = s.sa(t.e); return sz * t.n, al, None
        if isinstance(t, Lit):
            off = 0; al = 1; offs = []
            for f in t.fs:
                fs, fa, _ = s.sa(f)
                if t.packed: fa = 1
                off = (off + fa - 1) // fa * fa; offs.append(off); off += fs; al = max(al, fa)
            off = (off + al - 1) // al * al
            return off, al, offs
        raise Unsupported('layout %r' % t)
    def size(s, t): return s.sa(t)[0]

# ------------------------------------------------------------------ memory
class Obj:
    __slots__ = ('base', 'size', 'alive', 'kind', 'cells', 'name')
    def __init__(s, base, size, kind, name=''):
        s.base = base; s.size = size; s.alive = True; s.kind = kind; s.cells = {}; s.name = name

class Mem:
    def __init__(s):
        s.bases = []; s.objs = []; s.next = 0x100000; s.nalloc = 0
    def alloc(s, size, kind, name=''):
        base = s.next; s.next = (base + max(size, 1) + 64 + 63) // 64 * 64
        o = Obj(base, size, kind, name); s.bases.append(base); s.objs.append(o); s.nalloc += 1
        return o
    def find(s, addr, n, what):
        i = bisect.bisect_right(s.bases, addr) - 1
        if i < 0: raise Violation('%s of %d bytes at invalid address 0x%x' % (what, n, addr))
        o = s.objs[i]
        if addr + n > o.base + o.size: raise Violation('%s of %d bytes out of bounds: object %s size %d offset %d' % (what, n, o.kind + ':' + o.name, o.size, addr - o.base))
        if not o.alive: raise Violation('%s of dead %s object %s' % (what, o.kind, o.name))
        return o, addr - o.base
    def store(s, addr, n, v):
        o, off = s.find(addr, n, 'store')
        c = o.cells
        if c:
            for k in range(max(0, off - 15), off + n):
                e = c.get(k)
                if e is not None and k + e[0] > off and k != off:
                    s.split(o, k)
            e = c.get(off)
            if e is not None and e[0] > n: s.split(o, off)
            elif e is not None and e[0] < n:
                pass
            for k in range(off + 1, off + n):
                if k in c: del c[k]
        c[off] = (n, v)
    def split(s, o, k):
        n, v = o.cells.pop(k)
        bs = tobytes(v, n)
        for i, b in enumerate(bs): o.cells[k + i] = (1, b)
    def load(s, addr, n):
        o, off = s.find(addr, n, 'load')
        e = o.cells.get(off)
        if e is not None and e[0] == n: return e[1]
        # slow path: assemble from bytes
        bs = []
        k = off
        while k < off + n:
            e = o.cells.get(k)
            if e is None:
                # maybe inside a wider cell
                found = False
                for j in range(k - 1, max(-1, k - 16), -1):
                    e2 = o.cells.get(j)
                    if e2 is not None:
                        if j + e2[0] > k:
                            bb = tobytes(e2[1], e2[0]); bs.append(bb[k - j]); found = True
                        break
                if not found: bs.append(UNDEF)
                k += 1
            else:
                bb = tobytes(e[1], e[0])
                take = min(len(bb), off + n - k)
                bs.extend(bb[:take]); k += take
        return frombytes(bs, n)

def tobytes(v, n):
    if isinstance(v, int): return [(v >> (8 * i)) & 0xFF for i in range(n)]
    if isinstance(v, float):
        raw = struct.pack('<f', v) if n == 4 else struct.pack('<d', v)
        return list(raw)
    if v is UNDEF: return [UNDEF] * n
    if isinstance(v, z3.BitVecRef): return [z3.Extract(8 * i + 7, 8 * i, v) for i in range(n)]
    raise Unsupported('tobytes %r' % (v,))

def frombytes(bs, n):
    if all(isinstance(b, int) for b in bs):
        return sum(b << (8 * i) for i, b in enumerate(bs))
    if any(b is UNDEF for b in bs): return UNDEF
    parts = [b if isinstance(b, z3.BitVecRef) else z3.BitVecVal(b, 8) for b in bs]
    return z3.simplify(z3.Concat(*reversed(parts))) if len(parts) > 1 else parts[0]

# ------------------------------------------------------------------ interpreter
class Interp:
    def __init__(s, m):
        s.m = m; s.L = Layout(m); s.dec = {}
        s.stats = dict(instr=0, solver_calls=0, solver_s=0.0)
        s.solver = z3.Solver()
        s.fnaddr = {}; s.addrfn = {}
        for i, n in enumerate(list(m.funcs) + list(m.decls)):
            s.fnaddr[n] = 0x1000 + 16 * i; s.addrfn[0x1000 + 16 * i] = n

    # ---- path control
    def start_path(s, prefix):
        s.mem = Mem(); s.prefix = prefix; s.dpos = 0; s.decisions = []; s.pending = []
        s.pc = []; s.solver.reset(); s.symcount = 0; s.gaddr = {}; s.heap_live = {}
        s.path_instr = 0
        for n, (t, init, const) in s.m.globals.items():
            if init is None: continue
            o = s.mem.alloc(s.L.size(t), 'global', n); s.gaddr[n] = o.base
        for n, (t, init, const) in s.m.globals.items():
            if init is None: continue
            s.init_global(s.gaddr[n], t, init)

    def init_global(s, addr, t, v):
        t = s.L.res(t)
        if v.kind in ('zero', 'undef'):
            s.zero(addr, t); return
        if v.kind == 'agg':
            if isinstance(t, Arr):
                es = s.L.size(t.e)
                for i, x in enumerate(v.a): s.init_global(addr + i * es, t.e, x)
            else:
                offs = s.L.sa(t)[2]
                for i, x in enumerate(v.a): s.init_global(addr + offs[i], t.fs[i], x)
            return
        if v.kind == 'str':
            raw = v.a[2:-1]; i = 0; k = 0
            while i < len(raw):
                if raw[i] == '\\':
                    if raw[i+1] == '\\': b = 92; i += 2
                    else: b = int(raw[i+1:i+3], 16); i += 3
                else: b = ord(raw[i]); i += 1
                s.mem.store(addr + k, 1, b); k += 1
            return
        s.mem.store(addr, s.L.size(t), s.const(v))

    def zero(s, addr, t):
        t = s.L.res(t)
        if isinstance(t, Arr):
            es = s.L.size(t.e)
            for i in range(t.n): s.zero(addr + i * es, t.e)
        elif isinstance(t, Lit):
            offs = s.L.sa(t)[2]
            for i, f in enumerate(t.fs): s.zero(addr + offs[i], f)
        elif isinstance(t, Flt): s.mem.store(addr, s.L.size(t), 0.0)
        else: s.mem.store(addr, s.L.size(t), 0)

    def decide(s, n, feas):
        """choose among n alternatives; feas(i) -> bool feasibility (may be None = no solver needed)"""
        if s.dpos < len(s.prefix):
            d = s.prefix[s.dpos]; s.dpos += 1; s.decisions.append(d); return d
        opts = [i for i in range(n) if feas is None or feas(i)]
        if not opts: raise PathEnd('infeasible')
        for alt in opts[1:]: s.pending.append(s.decisions + [alt])
        s.dpos += 1; s.decisions.append(opts[0]); return opts[0]

    def check(s, extra):
        t0 = time.time(); s.solver.push(); s.solver.add(extra); r = s.solver.check(); s.solver.pop()
        s.stats['solver_calls'] += 1; s.stats['solver_s'] += time.time() - t0
        if r == z3.unknown: raise Unsupported('solver unknown')
        return r == z3.sat

    def branch(s, c):
        """c: python int/bool or z3 BoolRef -> bool taken"""
        if isinstance(c, int): return bool(c)
        if c is UNDEF: raise Violation('branch on uninitialised value')
        c = z3.simplify(c)
        if z3.is_true(c): return True
        if z3.is_false(c): return False
        d = s.decide(2, lambda i: s.check(c if i == 0 else z3.Not(c)))
        cc = c if d == 0 else z3.Not(c)
        s.pc.append(cc); s.solver.add(cc)
        return d == 0

    # ---- values
    def const(s, v):
        k = v.kind; t = v.ty
        if k == 'int':
            if isinstance(t, Flt): return float(v.a)
            return v.a & ((1 << t.n) - 1)
        if k == 'flt': return f32(v.a) if t.k == 'float' else v.a
        if k == 'hexf':
            d = struct.unpack('<d', struct.pack('<Q', int(v.a, 16)))[0]
            return f32(d) if t.k == 'float' else d
        if k == 'null': return 0
        if k == 'undef':
            if isinstance(s.L.res(t), (Int, Ptr, Flt)): return UNDEF
            return s.zero_agg(t, UNDEF)
        if k == 'zero':
            rt = s.L.res(t)
            if isinstance(rt, Flt): return 0.0
            if isinstance(rt, (Int, Ptr)): return 0
            return s.zero_agg(t, 0)
        if k == 'global':
            if v.a in s.fnaddr: return s.fnaddr[v.a]
            return s.gaddr[v.a]
        if k == 'cgep':
            bt, base, idx = v.a
            return s.gep(bt, s.const(base), [s.const(i) for i in idx], idx)
        if k == 'ccast':
            op, sv = v.a
            return s.cast(op, s.const(sv), sv.ty, v.ty)
        if k == 'agg': return [s.const(x) for x in v.a]
        raise Unsupported('const ' + k)

    def zero_agg(s, t, z):
        t = s.L.res(t)
        if isinstance(t, Arr): return [s.zero_agg(t.e, z) for _ in range(t.n)]
        if isinstance(t, Lit): return [s.zero_agg(f, z) for f in t.fs]
        if isinstance(t, Flt): return 0.0 if z == 0 else z
        return z

    def gep(s, bt, base, idxv, idxops):
        if not isinstance(base, int): raise Unsupported('symbolic pointer base')
        def sidx(x, op):
            n = op.ty.n
            if not isinstance(x, int): raise Unsupported('symbolic gep index')
            return x - (1 << n) if x >> (n - 1) else x
        addr = base + sidx(idxv[0], idxops[0]) * s.L.size(bt)
        t = bt
        for x, op in zip(idxv[1:], idxops[1:]):
            rt = s.L.res(t)
            if isinstance(rt, Lit):
                addr += s.L.sa(rt)[2][x]; t = rt.fs[x]
            else:
                addr += sidx(x, op) * s.L.size(rt.e); t = rt.e
        return addr & ((1 << 64) - 1)

    def cast(s, op, x, st, dt):
        if x is UNDEF: return UNDEF
        if op in ('bitcast',):
            if isinstance(st, Ptr) and isinstance(dt, Ptr): return x
            if isinstance(st, Int) and isinstance(dt, Flt):
                return struct.unpack('<f' if dt.k == 'float' else '<d', x.to_bytes(4 if dt.k == 'float' else 8, 'little'))[0]
            if isinstance(st, Flt) and isinstance(dt, Int):
                return int.from_bytes(struct.pack('<f' if st.k == 'float' else '<d', x), 'little')
            raise Unsupported('bitcast')
        if op in ('ptrtoint', 'inttoptr'):
            n = (dt.n if op == 'ptrtoint' else 64)
            if isinstance(x, int): return x & ((1 << n) - 1)
            raise Unsupported('symbolic pointer cast')
        if op == 'trunc':
            if isinstance(x, int): return x & ((1 << dt.n) - 1)
            if dt.n == 1: return z3.Extract(0, 0, x) == z3.BitVecVal(1, 1)
            return z3.Extract(dt.n - 1, 0, x)
        if op == 'zext':
            if isinstance(x, int): return x
            if z3.is_bool(x): return z3.If(x, z3.BitVecVal(1, dt.n), z3.BitVecVal(0, dt.n))
            return z3.ZeroExt(dt.n - st.n, x)
        if op == 'sext':
            if isinstance(x, int): return (x - (1 << st.n) if x >> (st.n - 1) else x) & ((1 << dt.n) - 1)
            if z3.is_bool(x): return z3.If(x, z3.BitVecVal(-1, dt.n), z3.BitVecVal(0, dt.n))
            return z3.SignExt(dt.n - st.n, x)
        if isinstance(x, (z3.ExprRef,)): raise Unsupported('symbolic fp cast')
        if op == 'fpext': return float(x)
        if op == 'fptrunc': return f32(x)
        if op == 'sitofp':
            v = x - (1 << st.n) if x >> (st.n - 1) else x
            return f32(float(v)) if dt.k == 'float' else float(v)
        if op == 'uitofp': return f32(float(x)) if dt.k == 'float' else float(x)
        if op in ('fptosi', 'fptoui'):
            return int(x) & ((1 << dt.n) - 1)
        raise Unsupported('cast ' + op)

    def binop(s, op, a, b, t):
        if a is UNDEF or b is UNDEF: return UNDEF
        if isinstance(t, Flt):
            if not (isinstance(a, float) and isinstance(b, float)): raise Unsupported('symbolic fp arithmetic')
            r = {'fadd': lambda: a + b, 'fsub': lambda: a - b, 'fmul': lambda: a * b,
                 'fdiv': lambda: (a / b if b != 0 else (float('inf') if a > 0 else float('-inf') if a < 0 else float('nan')))}[op]()
            return f32(r) if t.k == 'float' else r
        n = t.n; M = (1 << n) - 1
        if isinstance(a, int) and isinstance(b, int):
            sg = lambda x: x - (1 << n) if x >> (n - 1) else x
            if op == 'add': return (a + b) & M
            if op == 'sub': return (a - b) & M
            if op == 'mul': return (a * b) & M
            if op == 'and': return a & b
            if op == 'or': return a | b
            if op == 'xor': return a ^ b
            if op == 'shl': return (a << b) & M if b < n else UNDEF
            if op == 'lshr': return a >> b if b < n else UNDEF
            if op == 'ashr': return (sg(a) >> b) & M if b < n else UNDEF
            if op == 'udiv':
                if b == 0: raise Violation('division by zero')
                return a // b
            if op == 'urem':
                if b == 0: raise Violation('division by zero')
                return a % b
            if op in ('sdiv', 'srem'):
                if b == 0: raise Violation('division by zero')
                x, y = sg(a), sg(b); q = abs(x) // abs(y); q = q if (x < 0) == (y < 0) else -q
                return (q if op == 'sdiv' else x - q * y) & M
            raise Unsupported(op)
        # symbolic
        if n == 1:
            A = a if not isinstance(a, int) else z3.BoolVal(bool(a)); B = b if not isinstance(b, int) else z3.BoolVal(bool(b))
            if op == 'and': return z3.And(A, B)
            if op == 'or': return z3.Or(A, B)
            if op == 'xor': return z3.Xor(A, B)
            raise Unsupported('i1 ' + op)
        A = a if not isinstance(a, int) else z3.BitVecVal(a, n); B = b if not isinstance(b, int) else z3.BitVecVal(b, n)
        r = {'add': lambda: A + B, 'sub': lambda: A - B, 'mul': lambda: A * B, 'and': lambda: A & B, 'or': lambda: A | B,
             'xor': lambda: A ^ B, 'shl': lambda: A << B, 'lshr': lambda: z3.LShR(A, B), 'ashr': lambda: A >> B,
             'udiv': lambda: z3.UDiv(A, B), 'urem': lambda: z3.URem(A, B), 'sdiv': lambda: A / B, 'srem': lambda: z3.SRem(A, B)}[op]()
        return r

    def icmp(s, pred, a, b, t):
        if a is UNDEF or b is UNDEF: return UNDEF
        n = t.n if isinstance(t, Int) else 64
        if isinstance(a, int) and isinstance(b, int):
            if pred[0] == 's':
                a = a - (1 << n) if a >> (n - 1) else a; b = b - (1 << n) if b >> (n - 1) else b
            return int({'eq': a == b, 'ne': a != b, 'ult': a < b, 'ule': a <= b, 'ugt': a > b, 'uge': a >= b,
                        'slt': a < b, 'sle': a <= b, 'sgt': a > b, 'sge': a >= b}[pred])
        if n == 1:
            A = a if not isinstance(a, int) else z3.BoolVal(bool(a)); B = b if not isinstance(b, int) else z3.BoolVal(bool(b))
            if pred == 'eq': return A == B
            if pred == 'ne': return A != B
            raise Unsupported('i1 icmp ' + pred)
        A = a if not isinstance(a, int) else z3.BitVecVal(a, n); B = b if not isinstance(b, int) else z3.BitVecVal(b, n)
        return {'eq': lambda: A == B, 'ne': lambda: A != B, 'ult': lambda: z3.ULT(A, B), 'ule': lambda: z3.ULE(A, B),
                'ugt': lambda: z3.UGT(A, B), 'uge': lambda: z3.UGE(A, B), 'slt': lambda: A < B, 'sle': lambda: A <= B,
                'sgt': lambda: A > B, 'sge': lambda: A >= B}[pred]()

    # ---- decoding
    def decode_fn(s, f):
        blocks = {}
        for label, ins in f.blocks:
            blocks[label] = [s.decode(toks) for toks in ins]
        return blocks

    def typed(s, p):
        t = parse_type(p); skip_param_attrs(p); return parse_const(p, t)

    def decode(s, toks):
        cut = len(toks)
        for i, (k, v) in enumerate(toks):
            if k == 'meta' and i > 0 and toks[i-1][1] == ',': cut = i - 1; break
        toks = [t for t in toks[:cut] if t[0] != 'attrg']
        p = P(toks); dst = None
        if p.peek()[0] == 'lname' and p.peek(1)[1] == '=':
            dst = uq(p.next()[1][1:]); p.next()
        op = p.next()[1]
        if op in ('tail', 'musttail', 'notail'): op = p.next()[1]
        if op == 'ret':
            if p.accept('void'): return ('ret', None)
            return ('ret', s.typed(p))
        if op == 'br':
            if p.accept('label'): return ('br', uq(p.next()[1][1:]))
            c = s.typed(p); p.expect(','); p.expect('label'); a = uq(p.next()[1][1:]); p.expect(','); p.expect('label'); b = uq(p.next()[1][1:])
            return ('cbr', c, a, b)
        if op == 'switch':
            c = s.typed(p); p.expect(','); p.expect('label'); d = uq(p.next()[1][1:]); p.expect('['); cases = []
            while not p.accept(']'):
                cv = s.typed(p); p.expect(','); p.expect('label'); cases.append((cv.a & ((1 << cv.ty.n) - 1), uq(p.next()[1][1:])))
            return ('switch', c, d, cases)
        if op == 'unreachable': return ('unreachable',)
        if op == 'phi':
            t = parse_type(p); inc = {}
            while True:
                p.expect('['); v = parse_const(p, t); p.expect(','); lb = uq(p.next()[1][1:]); p.expect(']'); inc[lb] = v
                if not p.accept(','): break
            return ('phi', dst, inc)
        if op == 'alloca':
            p.accept('inalloca'); t = parse_type(p); cnt = None
            while p.accept(','):
                if p.accept('align'): p.next()
                else: cnt = s.typed(p)
            return ('alloca', dst, t, cnt)
        if op == 'load':
            p.accept('volatile'); t = parse_type(p); p.expect(','); a = s.typed(p); return ('load', dst, t, a)
        if op == 'store':
            p.accept('volatile'); v = s.typed(p); p.expect(','); a = s.typed(p); return ('store', v, a)
        if op == 'getelementptr':
            p.accept('inbounds'); bt = parse_type(p); p.expect(','); base = s.typed(p); idx = []
            while p.accept(','): idx.append(s.typed(p))
            return ('gep', dst, bt, base, idx)
        if op in ('add','sub','mul','udiv','sdiv','urem','srem','shl','lshr','ashr','and','or','xor','fadd','fsub','fmul','fdiv'):
            while p.peek()[1] in ('nuw','nsw','exact') or p.peek()[1] in FMF: p.next()
            t = parse_type(p); a = parse_const(p, t); p.expect(','); b = parse_const(p, t)
            return ('bin', dst, op, t, a, b)
        if op == 'fneg':
            while p.peek()[1] in FMF: p.next()
            t = parse_type(p); a = parse_const(p, t); return ('fneg', dst, t, a)
        if op == 'icmp':
            pred = p.next()[1]; t = parse_type(p); a = parse_const(p, t); p.expect(','); b = parse_const(p, t)
            return ('icmp', dst, pred, t, a, b)
        if op == 'fcmp':
            while p.peek()[1] in FMF: p.next()
            pred = p.next()[1]; t = parse_type(p); a = parse_const(p, t); p.expect(','); b = parse_const(p, t)
            return ('fcmp', dst, pred, a, b)
        if op == 'select':
            while p.peek()[1] in FMF: p.next()
            c = s.typed(p); p.expect(','); a = s.typed(p); p.expect(','); b = s.typed(p); return ('select', dst, c, a, b)
        if op in ('bitcast','ptrtoint','inttoptr','trunc','zext','sext','fptrunc','fpext','sitofp','uitofp','fptosi','fptoui'):
            sv = s.typed(p); p.expect('to'); dt = parse_type(p); return ('cast', dst, op, sv, dt)
        if op == 'freeze':
            v = s.typed(p); return ('copy', dst, v)
        if op == 'extractvalue':
            v = s.typed(p); path = []
            while p.accept(','): path.append(int(p.next()[1]))
            return ('extractvalue', dst, v, path)
        if op == 'insertvalue':
            agg = s.typed(p); p.expect(','); v = s.typed(p); path = []
            while p.accept(','): path.append(int(p.next()[1]))
            return ('insertvalue', dst, agg, v, path)
        if op == 'call':
            while p.peek()[0] == 'word' and (p.peek()[1] in PARAM_ATTRS or p.peek()[1] in ('fastcc','ccc') or p.peek()[1] in FMF):
                skip_param_attrs(p)
                if p.peek()[1] in ('fastcc','ccc') or p.peek()[1] in FMF: p.next()
            rt = parse_type_base(p)
            if p.peek()[1] == '(' and p.peek()[0] == 'p':
                depth = 0
                while True:
                    x = p.next()[1]
                    if x == '(': depth += 1
                    elif x == ')':
                        depth -= 1
                        if depth == 0: break
                while p.accept('*'): pass
            k, cv = p.next(); args = []; p.expect('(')
            if not p.accept(')'):
                while True:
                    if p.peek()[1] == 'metadata':
                        while p.peek()[1] not in (',', ')'): p.next()
                        args.append(None)
                    else: args.append(s.typed(p))
                    if p.accept(')'): break
                    p.expect(',')
            return ('call', dst, rt, (k, uq(cv[1:])), args)
        raise Unsupported('instr ' + op)

    # ---- execution
    def val(s, env, v):
        if v.kind == 'local':
            return env[v.a]
        return s.const(v)

    def call(s, name, args):
        f = s.m.funcs.get(name)
        if f is None: return s.external(name, args)
        blocks = s.dec.get(name)
        if blocks is None: blocks = s.dec[name] = s.decode_fn(f)
        env = {pn: a for (t, pn), a in zip(f.params, args)}
        frame_objs = []
        cur = f.blocks[0][0]; prev = None
        mem = s.mem
        try:
            while True:
                ins = blocks[cur]
                # phis first (parallel)
                i = 0
                if ins and ins[0][0] == 'phi':
                    vals = []
                    while i < len(ins) and ins[i][0] == 'phi':
                        vals.append((ins[i][1], s.val(env, ins[i][2][prev]))); i += 1
                    for d, v in vals: env[d] = v
                s.path_instr += len(ins)
                if s.path_instr > s.budget: raise Violation('instruction budget exhausted (non-termination?) in ' + name)
                for it in ins[i:]:
                    op = it[0]
                    if op == 'bin':
                        env[it[1]] = s.binop(it[2], s.val(env, it[4]), s.val(env, it[5]), it[3])
                    elif op == 'load':
                        a = s.val(env, it[3]); t = s.L.res(it[2])
                        if not isinstance(a, int): raise Unsupported('load from symbolic/undef address')
                        if isinstance(t, (Arr, Lit)): env[it[1]] = s.load_agg(a, t)
                        else:
                            v = mem.load(a, s.L.size(t))
                            if isinstance(t, Flt) and isinstance(v, int): v = s.cast('bitcast', v, Int(32 if t.k == 'float' else 64), t)
                            elif isinstance(t, Int) and isinstance(v, float): v = int.from_bytes(struct.pack('<f' if t.n == 32 else '<d', v), 'little')
                            elif isinstance(t, Int) and t.n == 1 and isinstance(v, int): v &= 1
                            env[it[1]] = v
                    elif op == 'store':
                        a = s.val(env, it[2]); t = s.L.res(it[1].ty); v = s.val(env, it[1])
                        if not isinstance(a, int): raise Unsupported('store to symbolic/undef address')
                        if isinstance(t, (Arr, Lit)): s.store_agg(a, t, v)
                        else:
                            if z3.is_bool(v) if isinstance(v, z3.ExprRef) else False: v = z3.If(v, z3.BitVecVal(1, 8), z3.BitVecVal(0, 8))
                            mem.store(a, s.L.size(t), v)
                    elif op == 'gep':
                        idx = it[4]
                        env[it[1]] = s.gep(it[2], s.val(env, it[3]), [s.val(env, x) for x in idx], idx)
                    elif op == 'icmp':
                        env[it[1]] = s.icmp(it[2], s.val(env, it[4]), s.val(env, it[5]), it[3])
                    elif op == 'cast':
                        env[it[1]] = s.cast(it[2], s.val(env, it[3]), it[3].ty, it[4])
                    elif op == 'br':
                        prev, cur = cur, it[1]; break
                    elif op == 'cbr':
                        c = s.val(env, it[1])
                        prev, cur = cur, (it[2] if s.branch(c) else it[3]); break
                    elif op == 'call':
                        kind, cname = it[3]
                        args2 = [s.val(env, a) if a is not None else None for a in it[4]]
                        if kind != 'gname':
                            fa = env[cname]; cname = s.addrfn.get(fa)
                            if cname is None: raise Violation('indirect call through invalid pointer')
                        r = s.call(cname, args2)
                        if it[1] is not None: env[it[1]] = r
                    elif op == 'select':
                        c = s.val(env, it[2]); a = s.val(env, it[3]); b = s.val(env, it[4])
                        if isinstance(c, int): env[it[1]] = a if c else b
                        elif c is UNDEF: env[it[1]] = UNDEF
                        else:
                            if isinstance(a, float) or isinstance(b, float) or isinstance(a, list):
                                env[it[1]] = a if s.branch(c) else b
                            else:
                                n = it[3].ty.n if isinstance(it[3].ty, Int) else 64
                                if n == 1:
                                    A = a if not isinstance(a, int) else z3.BoolVal(bool(a)); B = b if not isinstance(b, int) else z3.BoolVal(bool(b))
                                else:
                                    A = a if not isinstance(a, int) else z3.BitVecVal(a, n); B = b if not isinstance(b, int) else z3.BitVecVal(b, n)
                                if isinstance(it[3].ty, Ptr): env[it[1]] = a if s.branch(c) else b
                                else: env[it[1]] = z3.If(c, A, B)
                    elif op == 'alloca':
                        n = 1 if it[3] is None else s.val(env, it[3])
                        o = mem.alloc(s.L.size(it[2]) * n, 'stack', name[:30] + '%' + it[1]); frame_objs.append(o)
                        env[it[1]] = o.base
                    elif op == 'ret':
                        return None if it[1] is None else s.val(env, it[1])
                    elif op == 'switch':
                        c = s.val(env, it[1])
                        if not isinstance(c, int): raise Unsupported('symbolic switch')
                        tgt = it[2]
                        for cv, lb in it[3]:
                            if cv == c: tgt = lb; break
                        prev, cur = cur, tgt; break
                    elif op == 'fcmp':
                        a = s.val(env, it[3]); b = s.val(env, it[4]); pred = it[2]
                        if not (isinstance(a, float) and isinstance(b, float)): raise Unsupported('symbolic fcmp')
                        un = a != a or b != b
                        base = {'eq': a == b, 'ne': a != b, 'lt': a < b, 'le': a <= b, 'gt': a > b, 'ge': a >= b}
                        if pred == 'ord': r = not un
                        elif pred == 'uno': r = un
                        elif pred[0] == 'o': r = (not un) and base[pred[1:]]
                        else: r = un or base[pred[1:]]
                        env[it[1]] = int(r)
                    elif op == 'fneg': env[it[1]] = -s.val(env, it[3])
                    elif op == 'copy': env[it[1]] = s.val(env, it[2])
                    elif op == 'extractvalue':
                        v = s.val(env, it[2])
                        for k in it[3]: v = v[k]
                        env[it[1]] = v
                    elif op == 'insertvalue':
                        import copy
                        agg = copy.deepcopy(s.val(env, it[2])); v = s.val(env, it[3]); tgt = agg
                        for k in it[4][:-1]: tgt = tgt[k]
                        tgt[it[4][-1]] = v; env[it[1]] = agg
                    elif op == 'unreachable':
                        raise Violation('unreachable executed in ' + name)
                    else:
                        raise Unsupported('exec ' + op)
                else:
                    raise Unsupported('block without terminator')
        finally:
            for o in frame_objs: o.alive = False

    def load_agg(s, a, t):
        if isinstance(t, Arr):
            es = s.L.size(t.e); et = s.L.res(t.e)
            return [s.load_agg(a + i * es, et) if isinstance(et, (Arr, Lit)) else s.mem.load(a + i * es, es) for i in range(t.n)]
        offs = s.L.sa(t)[2]; out = []
        for f, o in zip(t.fs, offs):
            ft = s.L.res(f)
            out.append(s.load_agg(a + o, ft) if isinstance(ft, (Arr, Lit)) else s.mem.load(a + o, s.L.size(ft)))
        return out

    def store_agg(s, a, t, v):
        if isinstance(t, Arr):
            es = s.L.size(t.e); et = s.L.res(t.e)
            for i in range(t.n):
                if isinstance(et, (Arr, Lit)): s.store_agg(a + i * es, et, v[i])
                else: s.mem.store(a + i * es, es, v[i])
            return
        offs = s.L.sa(t)[2]
        for f, o, x in zip(t.fs, offs, v):
            ft = s.L.res(f)
            if isinstance(ft, (Arr, Lit)): s.store_agg(a + o, ft, x)
            else: s.mem.store(a + o, s.L.size(ft), x)

    def memcpy(s, d, sr, n):
        if not (isinstance(d, int) and isinstance(sr, int) and isinstance(n, int)): raise Unsupported('symbolic memcpy')
        if n == 0: return
        so, soff = s.mem.find(sr, n, 'memcpy read'); do, doff = s.mem.find(d, n, 'memcpy write')
        # collect source cells (split straddlers)
        for k in list(so.cells):
            e = so.cells.get(k)
            if e is None: continue
            if (k < soff < k + e[0]) or (k < soff + n < k + e[0]): s.mem.split(so, k)
        items = [(k - soff, so.cells[k]) for k in so.cells if soff <= k < soff + n]
        for k in list(do.cells):
            e = do.cells.get(k)
            if e is None: continue
            if (k < doff < k + e[0]) or (k < doff + n < k + e[0]): s.mem.split(do, k)
        for k in [k for k in do.cells if doff <= k < doff + n]: del do.cells[k]
        for rel, e in items: do.cells[doff + rel] = e

    def external(s, name, a):
        if name.startswith('llvm.'):
            if name.startswith(('llvm.lifetime', 'llvm.experimental.noalias', 'llvm.dbg', 'llvm.assume', 'llvm.stackrestore')): return None
            if name.startswith('llvm.stacksave'): return 0
            if name.startswith(('llvm.memcpy', 'llvm.memmove')): s.memcpy(a[0], a[1], a[2]); return None
            if name.startswith('llvm.memset'):
                if not all(isinstance(x, int) for x in a[:3]): raise Unsupported('symbolic memset')
                if a[2]:
                    o, off = s.mem.find(a[0], a[2], 'memset')
                    for k in list(o.cells):
                        e = o.cells.get(k)
                        if e is not None and ((k < off < k + e[0]) or (k < off + a[2] < k + e[0])): s.mem.split(o, k)
                    for k in [k for k in o.cells if off <= k < off + a[2]]: del o.cells[k]
                    n = a[2]; k = off
                    w = (a[1] & 0xFF) * 0x0101010101010101
                    while n >= 8 and k % 8 == 0: o.cells[k] = (8, w); k += 8; n -= 8
                    while n: o.cells[k] = (1, a[1] & 0xFF); k += 1; n -= 1
                return None
            if name.startswith('llvm.expect'): return a[0]
            for f in ('abs', 'smax', 'smin', 'umax', 'umin', 'ctlz', 'cttz'):
                if name.startswith('llvm.%s.i' % f):
                    n = int(name.split('.i')[-1]); x = a[0]
                    if not all(isinstance(v, int) for v in a[:2] if v is not None):
                        if f in ('ctlz', 'cttz'): raise Unsupported('symbolic ' + name)
                        X = x if not isinstance(x, int) else z3.BitVecVal(x, n)
                        if f == 'abs': return z3.If(X < 0, -X, X)
                        Y = a[1] if not isinstance(a[1], int) else z3.BitVecVal(a[1], n)
                        if f == 'smax': return z3.If(X > Y, X, Y)
                        if f == 'smin': return z3.If(X < Y, X, Y)
                        if f == 'umax': return z3.If(z3.UGT(X, Y), X, Y)
                        if f == 'umin': return z3.If(z3.ULT(X, Y), X, Y)
                    sg = lambda v: v - (1 << n) if v >> (n - 1) else v
                    if f == 'abs': return abs(sg(x)) & ((1 << n) - 1)
                    if f == 'smax': return x if sg(x) > sg(a[1]) else a[1]
                    if f == 'smin': return x if sg(x) < sg(a[1]) else a[1]
                    if f == 'umax': return max(x, a[1])
                    if f == 'umin': return min(x, a[1])
                    if f == 'ctlz': return n - x.bit_length()
                    if f == 'cttz': return n if x == 0 else (x & -x).bit_length() - 1
            if name.startswith(('llvm.trap', 'llvm.ubsantrap')): raise Violation('trap: ' + name)
            raise Unsupported('intrinsic ' + name)
        if name in ('_Znwm', '_Znam'):
            if not isinstance(a[0], int): raise Unsupported('symbolic allocation size')
            o = s.mem.alloc(a[0], 'heap', 'new#%d' % s.mem.nalloc); s.heap_live[o.base] = o; return o.base
        if name in ('_ZdlPv', '_ZdaPv', '_ZdlPvm', '_ZdaPvm'):
            if a[0] == 0: return None
            o = s.heap_live.pop(a[0], None)
            if o is None: raise Violation('delete of non-heap or already freed pointer')
            o.alive = False; return None
        if name == '__assert_fail': raise Violation('library assert() failed')
        if name.startswith('_ZSt') and 'throw' in name: raise Violation('C++ exception: ' + name)
        if name == 'getenv': return 0
        if name == 'irsym_choose': return s.decide(a[0], None)
        if name == 'irsym_symbolic_u64':
            s.symcount += 1; v = z3.BitVec('sym%d' % s.symcount, 64); return v
        if name == 'irsym_assume':
            if not s.branch(a[0] if isinstance(a[0], int) or z3.is_bool(a[0]) else a[0] != 0): raise PathEnd('assume false')
            return None
        if name == 'irsym_assert':
            c = a[0]
            if isinstance(c, int):
                if not c: raise Violation('harness assertion %d failed (concrete)' % a[1])
                return None
            if c is UNDEF: raise Violation('assertion on uninitialised value')
            c = c if z3.is_bool(c) else c != 0
            if s.check(z3.Not(c)):
                s.solver.push(); s.solver.add(z3.Not(c)); s.solver.check(); mdl = s.solver.model(); s.solver.pop()
                raise Violation('harness assertion %d failed; model %s' % (a[1], mdl))
            s.stats['proved'] = s.stats.get('proved', 0) + 1
            return None
        raise Unsupported('external ' + name)

def explore(m, entry, args_fn, budget=5_000_000, max_paths=10**9, verbose=True):
    it = Interp(m); it.budget = budget
    work = [[]]; npaths = 0; nviol = 0; t0 = time.time(); total_instr = 0
    while work and npaths < max_paths:
        prefix = work.pop()
        it.start_path(prefix)
        try:
            it.call(entry, args_fn(it))
            if it.heap_live: raise Violation('leak: %d heap blocks alive at exit' % len(it.heap_live))
            status = 'ok'
        except PathEnd as e: status = 'end:' + str(e)
        except Violation as e:
            status = 'VIOLATION: ' + str(e)[:300]; nviol += 1
            if verbose: print('  path', it.decisions, status)
        work.extend(it.pending); npaths += 1; total_instr += it.path_instr
    dt = time.time() - t0
    print('paths=%d violations=%d instr=%d wall=%.1fs (%.2f us/instr, %.3f s/path) solver_calls=%d solver_s=%.1f proved=%d pending=%d' % (
        npaths, nviol, total_instr, dt, 1e6 * dt / max(1, total_instr), dt / max(1, npaths), it.stats['solver_calls'], it.stats['solver_s'], it.stats.get('proved', 0), len(work)))
    return nviol

if __name__ == '__main__':
    m = parse_module(open(sys.argv[1]).read())
    entry = sys.argv[2]
    explore(m, entry, lambda it: [])
