"""E2 driver: build the IR of a harness wrapper from /repo's working tree, validate the interpreter against the g++ build
(differential self-check), explore all paths with irsym, replay violations natively, record evidence."""
import os, subprocess, time, json, hashlib, re
from concurrent.futures import ThreadPoolExecutor
from . import irsym, ir2c
from .common import VERIF, REPO, GUARD, Inconclusive, BuildError, GXX_BASE

NATIVE_RT = os.path.join(VERIF, 'wrappers', 'irsym_native.cpp')
MEM_KINDS = ('oob', 'dead', 'leak', 'free')
UNCONFIRMABLE = ('uninit', 'align')


def classify(msg, kind):
    """refine the interpreter's violation kind from its message"""
    if kind != 'assert': return kind
    if 'out of bounds' in msg or 'invalid address' in msg: return 'oob'
    if ' of dead ' in msg: return 'dead'
    if msg.startswith('leak'): return 'leak'
    if 'delete of' in msg: return 'free'
    if 'uninitialised' in msg: return 'uninit'
    if 'division by zero' in msg or 'unreachable executed' in msg: return 'ub'
    return kind


def native_exe(ctx, wrapper, defines, sanitize, ndebug=False, extra=()):
    extra = tuple(extra)
    key = hashlib.md5(repr((wrapper, tuple(defines), sanitize, ndebug, tuple(extra))).encode()).hexdigest()[:10]
    exe = ctx.path('e2nat_%s' % key)
    if os.path.exists(exe): return exe
    cmd = list(GXX_BASE) + ['-O1', '-g', '-rdynamic'] + ['-D%s' % d for d in defines] + list(extra)
    if ndebug: cmd.append('-DNDEBUG')
    if sanitize: cmd += ['-fsanitize=address,undefined', '-fno-sanitize-recover=all', '-fno-omit-frame-pointer']
    cmd += [os.path.join(VERIF, 'wrappers', wrapper), NATIVE_RT, '-o', exe + '.tmp', '-ldl']
    r = subprocess.run(cmd, capture_output=True, text=True)
    if r.returncode != 0: raise BuildError(wrapper, defines, r.stderr)
    os.replace(exe + '.tmp', exe)
    return exe


def write_replay_input(path, args, choices, syms):
    with open(path, 'w') as f:
        f.write('args ' + ' '.join(str(a) for a in args) + '\n')
        f.write('choices ' + ' '.join(str(c) for c in choices) + '\n')
        f.write('syms ' + ' '.join(str(v) for v in syms) + '\n')


def replay_native(ctx, exe, entry, args, choices, syms, timeout=60):
    fn = ctx.path('rp_%s.txt' % hashlib.md5(repr((entry, args, choices, syms)).encode()).hexdigest()[:12])
    write_replay_input(fn, args, choices, syms)
    env = dict(os.environ, ASAN_OPTIONS='detect_stack_use_after_return=1:detect_leaks=1:abort_on_error=0', UBSAN_OPTIONS='print_stacktrace=0')
    ctx.counters['native_replays'] += 1
    try:
        r = subprocess.run([exe, 'replay', entry, fn], capture_output=True, text=True, timeout=timeout, env=env)
    except subprocess.TimeoutExpired:
        return 'hang', 'no termination within %ds' % timeout
    out = (r.stdout.strip().split('\n')[-1] if r.stdout.strip() else '')
    if r.returncode == 0 and 'all assertions hold' in out: return 'holds', out[-200:]
    if r.returncode == 0: return 'vacuous', out[-200:]
    err = r.stderr.strip()
    m = re.search(r'(runtime error: [^\n]*|ERROR: AddressSanitizer: [^\n]*|ERROR: LeakSanitizer: [^\n]*|Assertion [^\n]*failed[^\n]*)', err)
    return 'fails', (out[-120:] + ' ' + (m.group(1) if m else err[-300:])).strip()


def diff_check(ctx, ll, wrapper, defines, entry, args, n, ndebug, hooks=None, hook_opts=None, extra_native=()):
    """native g++ build on seeded random inputs vs the interpreter run concretely on the same inputs"""
    exe = native_exe(ctx, wrapper, defines, sanitize=False, ndebug=ndebug, extra=extra_native)
    r = subprocess.run([exe, 'random', entry, str(ctx.seed), str(n)] + [str(a) for a in args], capture_output=True, text=True, timeout=300)
    lines = [l for l in r.stdout.split('\n') if l.startswith('choices')]
    ncrash = r.stdout.count('CRASH signal')     # a native abort (assertion / sanitizer) is not an encoder problem: the exploration will find and replay it
    if not lines and ncrash: return True, 'all %d seeded native runs aborted (left to the exploration to report)' % ncrash
    if not lines: return False, 'native random run produced no output: ' + (r.stdout[-200:] + r.stderr[-200:])
    m = irsym._G.get('m') if irsym._G.get('ll_path') == ll else None
    if m is None:
        m = ir2c.parse_module(open(ll).read()); irsym._G['m'] = m; irsym._G['ll_path'] = ll
    bad = []; done = 0
    for l in lines:
        mm = re.match(r'choices(.*) \| syms(.*) \| nobs (\d+) hash ([0-9a-f]+) \| (.*)$', l)
        if not mm: continue
        choices = [int(x) for x in mm.group(1).split()]; syms = [int(x) for x in mm.group(2).split()]
        nobs = int(mm.group(3)); h = int(mm.group(4), 16); why = mm.group(5)
        st, info, it = irsym.run_concrete(m, entry, list(args), choices, syms, hooks=hooks, hook_opts=hook_opts)
        done += 1
        exp = 'end' if why == 'assume false' else 'ok' if why == 'ok' else 'violation'
        if st == 'unsupported': return None, 'interpreter: ' + info.get('msg', '')
        if (st != exp or it.nobs != nobs or it.obs_hash != h) and exp == 'violation' and st == 'ok':
            # the native run failed but the interpreter did not: first make sure the native record itself is trustworthy - a run that corrupts its own heap
            # can print a damaged choice list. Replay the printed choices in a fresh native process; if that does not fail, the record is dropped.
            v2, _ = replay_native(ctx, exe, entry, list(args), choices, syms)
            if v2 != 'fails':
                unreliable = locals().get('unreliable', 0) + 1
                continue
        if st != exp or it.nobs != nobs or it.obs_hash != h:
            bad.append(dict(choices=choices, native=(why, nobs, '%016x' % h), interp=(st, it.nobs, '%016x' % it.obs_hash, info.get('msg', '')[:120])))
    ctx.counters['diff_cases'] += done
    if bad: return False, json.dumps(bad[:2])
    return True, '%d seeded concrete runs agree (observation traces identical)' % done


def run_config(ctx, name, wrapper, defines, entry, args, time_limit=120, flavour='asserts', diff=12, budget=5_000_000,
               hooks=None, hook_opts=None, max_paths=10**9, note='', expect_reach=(), jobs=None, extra_ir=(), extra_native=()):
    """one bounded exploration = one 'query' of the evidence. Returns the aggregate dict (or None when inconclusive)."""
    t0 = time.time()
    left = getattr(ctx, 'deadline', t0 + 10**9) - t0
    if left < 20:
        ctx.skipped.append(name); return None
    time_limit = min(time_limit, max(20, left - 10), max(60, getattr(ctx, 'budget_s', 10**9) / 5))     # no row may eat more than a fifth of the check's budget
    rec = dict(name=name, engine='E2 irsym', wrapper=wrapper, defines=list(defines), entry=entry, args=list(args), ir_flavour=flavour, note=note)
    try:
        ll = ctx.build_ir(wrapper, defines, flavour, extra=extra_ir)
    except BuildError as e:
        ctx.violation('%s:build' % name, 'wrapper %s %s does not compile against the current headers: %s' % (wrapper, list(defines), e.stderr[-700:]), None)
        rec['status'] = 'BUILD'; ctx.queries.append(rec); return None
    try:
        if diff:
            ok, info = diff_check(ctx, ll, wrapper, defines, entry, args, diff, ndebug=(flavour == 'plain'), hooks=hooks, hook_opts=hook_opts, extra_native=extra_native)
            rec['differential'] = info
            if ok is None:
                ctx.inconclusive.append('%s: IR construct outside the interpreter: %s' % (name, info)); rec['status'] = 'UNSUPPORTED'; ctx.queries.append(rec); return None
            if not ok:
                ctx.inconclusive.append('%s: interpreter self-check mismatch vs the g++ build: %s' % (name, info[:400])); rec['status'] = 'ENCODER'; ctx.queries.append(rec); return None
        agg = irsym.explore(ll, entry, list(args), jobs=jobs, budget=budget, time_limit=time_limit, hooks=hooks, hook_opts=hook_opts, max_paths=max_paths)
    except ir2c.Unsupported as ex:
        ctx.inconclusive.append('%s: IR construct outside the encoder subset: %s' % (name, str(ex)[:200])); rec['status'] = 'UNSUPPORTED'; ctx.queries.append(rec); return None
    except BuildError as e:
        ctx.violation('%s:build' % name, 'wrapper %s %s does not compile natively: %s' % (wrapper, list(defines), e.stderr[-700:]), None)
        rec['status'] = 'BUILD'; ctx.queries.append(rec); return None
    c = ctx.counters
    c['paths'] += agg['paths']; c['instr'] += agg['instr']; c['solver_calls'] += agg['solver_calls']; c['solver_s'] += agg['solver_s']; c['proved'] += agg['proved']
    for fn in irsym._G['m'].funcs: ctx.functions.add(fn)
    rec.update(status='VIOLATED' if agg['violations'] else 'HOLDS', paths=agg['paths'], paths_completed=agg['ok'], paths_pruned_by_assume=agg['ended'],
               ir_instructions=agg['instr'], solver_calls=agg['solver_calls'], solver_s=round(agg['solver_s'], 2), assertions_proved=agg['proved'],
               assertion_reach=agg['reach'], exhaustive=agg['exhaustive'], pending_left=agg.get('pending_left', 0), wall_s=round(time.time() - t0, 1),
               unsupported=agg['unsupported'][:3], nontrivial=agg['ok'] > 0)
    if agg['unsupported']:
        ctx.inconclusive.append('%s: %d path(s) hit an unsupported construct: %s' % (name, len(agg['unsupported']), agg['unsupported'][0]))
    if not agg['exhaustive']:
        rec['note'] += ' | budget ended before the path set was exhausted: %d paths explored, %d prefixes left' % (agg['paths'], agg.get('pending_left', 0))
        ctx.partial = getattr(ctx, 'partial', 0) + 1
    for aid in expect_reach:
        if not agg['reach'].get(aid) and not agg['violations'] and agg['exhaustive']:
            ctx.inconclusive.append('%s: assertion %s was reached by no path (vacuous harness?)' % (name, aid))
    if agg['ok'] == 0 and not agg['violations'] and not agg['unsupported']:
        ctx.inconclusive.append('%s: no path completed (vacuous harness)' % name)
    # violations: replay natively before reporting
    seen = set()
    for v in agg['violations']:
        kind = classify(v['msg'], v['kind'])
        sig = re.sub(r'\d+', '#', v['msg'])[:100] if kind != 'assert' else v['msg'][:60]
        aid = re.search(r'assertion (\d+)', v['msg'])
        key = '%s:%s:%s' % (name, kind, ('a' + aid.group(1)) if aid else re.sub(r'[^A-Za-z0-9_]+', '_', sig)[:60])
        if key in seen: continue
        seen.add(key)
        syms = v.get('model') or [0] * v.get('nsyms', 0)
        try:
            exe = native_exe(ctx, wrapper, defines, sanitize=True, ndebug=(flavour == 'plain'), extra=extra_native)
            verdict, info = replay_native(ctx, exe, entry, args, v['choices'], syms)
        except BuildError as e:
            verdict, info = 'nobuild', e.stderr[-300:]
        rp = ctx.replay_file(key, dict(engine='E2', wrapper=wrapper, defines=list(defines), entry=entry, args=list(args), choices=v['choices'],
                                       syms=syms, kind=kind, message=v['msg'], native=verdict, native_output=info, ndebug=(flavour == 'plain')))
        what = '%s: %s | choices=%s syms=%s | native replay (g++ -fsanitize=address,undefined): %s %s' % (name, v['msg'][:300], v['choices'], syms[:6], verdict, info[:200])
        if verdict in ('fails', 'hang'):
            ctx.violation(key, what, rp)
        elif kind in UNCONFIRMABLE or (hook_opts or {}).get('no_native_replay'):
            ctx.violation(key, what + ' [class of defect no native run can confirm: reported from the symbolic run]', rp)
        else:
            ctx.inconclusive.append('%s: symbolic-run violation does not reproduce natively (%s): %s' % (name, verdict, v['msg'][:200]))
    if len(ctx.samples) < 6 and agg['samples']:
        sm = agg['samples'][0]
        ctx.samples.append(dict(query=name, path_choices=sm['choices'], ir_instructions=sm['instr'], notes=sm['notes'][:8],
                                verdict='all harness assertions proved for every value of the symbolic payload on this path'))
    ctx.queries.append(rec)
    return agg


def run_configs(ctx, specs, jobs_outer=1, reserve=0):
    """specs: list of kwargs for run_config, run one after the other (each uses all cores for its path exploration);
    native builds are prefetched concurrently"""
    if getattr(ctx, 'only', None): specs = [s for s in specs if ctx.only in s['name']]
    # prefetch native + IR builds in parallel (they dominate the fixed cost)
    def pre(sp):
        try:
            ctx.build_ir(sp['wrapper'], sp['defines'], sp.get('flavour', 'asserts'), extra=sp.get('extra_ir', ()))
            if sp.get('diff', 12): native_exe(ctx, sp['wrapper'], sp['defines'], sanitize=False, ndebug=(sp.get('flavour', 'asserts') == 'plain'), extra=sp.get('extra_native', ()))
        except Exception:
            pass
    uniq = {}
    for sp in specs: uniq[(sp['wrapper'], tuple(sp['defines']), sp.get('flavour', 'asserts'))] = sp
    with ThreadPoolExecutor(min(12, max(1, len(uniq)))) as ex:
        list(ex.map(pre, uniq.values()))
    out = {}
    if ctx.tier != 'quick':
        # thorough tier: the rows of the quick table (and other short rows) first, at their own limits, so that thorough never covers less than quick;
        # then the deep rows share what is left of the budget equally (a row that ends early leaves its share to the others), none is dropped outright
        specs = sorted(specs, key=lambda sp: 0 if sp.get('time_limit', 120) <= 300 else 1)
    for i, sp in enumerate(specs):
        sp = dict(sp)
        if ctx.tier != 'quick' and sp.get('time_limit', 120) > 300:
            left = getattr(ctx, 'deadline', time.time() + 10**9) - time.time() - reserve
            sp['time_limit'] = min(sp['time_limit'], max(60, left / (len(specs) - i)))
        out[sp['name']] = run_config(ctx, **sp)
    return out
