"""Shared infrastructure of the /verif checks: IR generation from /repo's working tree,
cbmc driver (E1), evidence files, known-findings handling, native replay."""
import os, sys, json, subprocess, tempfile, shutil, time, re, hashlib, atexit, resource

VERIF = os.path.dirname(os.path.dirname(os.path.abspath(__file__)))
REPO = os.environ.get('VERIF_REPO', '/repo')
GUARD = 'BERENGER_EU_TBFMM_VERIF'
NCPU = int(os.environ.get('VERIF_JOBS', str(os.cpu_count() or 4)))

CLANG_BASE = ['clang++-14', '-std=c++17', '-O1', '-fno-vectorize', '-fno-slp-vectorize', '-fno-unroll-loops',
              '-fno-exceptions', '-ffp-contract=off', '-D' + GUARD, '-I' + os.path.join(REPO, 'src'), '-I' + os.path.join(VERIF, 'wrappers'),
              '-S', '-emit-llvm', '-Wno-everything']
UBSAN = ['-fsanitize=signed-integer-overflow,shift,integer-divide-by-zero,bounds,vla-bound,null',
         '-fsanitize-trap=all']
GXX_BASE = ['g++', '-std=c++17', '-D' + GUARD, '-I' + os.path.join(REPO, 'src'), '-I' + os.path.join(VERIF, 'wrappers'), '-w']


class Inconclusive(Exception):
    pass


class Ctx:
    """one run of one check"""
    def __init__(s, pid, tier, seed):
        s.pid = pid; s.tier = tier; s.seed = seed; s.t0 = time.time()
        s.scratch = tempfile.mkdtemp(prefix='verif.%s.' % pid, dir='/var/tmp')
        atexit.register(lambda: shutil.rmtree(s.scratch, ignore_errors=True))
        s.violations = []        # dicts: key, what, replay
        s.known_hits = []
        s.inconclusive = []
        s.queries = []           # per-query evidence records
        s.samples = []
        s.functions = set()
        s.assumptions = []
        s.bounds = {}
        s.counters = dict(paths=0, instr=0, solver_calls=0, solver_s=0.0, proved=0, cbmc_props=0, cbmc_runs=0, cbmc_s=0.0,
                          native_replays=0, diff_cases=0)
        s.findings = load_findings()
        s.repo_rev = repo_rev()
        # wall-clock budget of the whole check: rows that do not fit are skipped and listed in the evidence (never claimed)
        s.budget_s = float(os.environ.get('VERIF_BUDGET_S', '840' if tier == 'quick' else '3300'))
        s.deadline = s.t0 + s.budget_s
        s.skipped = []

    def quick(s): return s.tier == 'quick'

    def path(s, *a): return os.path.join(s.scratch, *a)

    # ---------------------------------------------------------------- builds
    def build_ir(s, wrapper, defines=(), flavour='plain', extra=(), tag=None):
        """clang -> textual IR of wrappers/<wrapper> ; returns path. flavour: plain|asserts|ubsan"""
        src = os.path.join(VERIF, 'wrappers', wrapper)
        key = hashlib.md5(repr((wrapper, tuple(defines), flavour, tuple(extra))).encode()).hexdigest()[:10]
        out = s.path('%s.%s.%s.ll' % (os.path.splitext(wrapper)[0], flavour, key))
        if os.path.exists(out): return out
        cmd = list(CLANG_BASE) + ['-D%s' % d for d in defines] + list(extra)
        if flavour == 'plain': cmd.append('-DNDEBUG')
        elif flavour == 'ubsan': cmd += UBSAN
        cmd += [src, '-o', out]
        r = subprocess.run(cmd, capture_output=True, text=True)
        if r.returncode != 0:
            raise BuildError(wrapper, defines, r.stderr)
        return out

    def build_native(s, wrapper, defines=(), sanitize=False, ndebug=False, extra_src=(), extra=(), opt='-O1'):
        """g++ build of the real headers + wrapper (+ runtime) -> executable path"""
        src = os.path.join(VERIF, 'wrappers', wrapper)
        key = hashlib.md5(repr((wrapper, tuple(defines), sanitize, ndebug, tuple(extra_src), tuple(extra), opt)).encode()).hexdigest()[:10]
        out = s.path('%s.native.%s' % (os.path.splitext(wrapper)[0], key))
        if os.path.exists(out): return out
        cmd = list(GXX_BASE) + [opt, '-g'] + ['-D%s' % d for d in defines] + list(extra)
        if ndebug: cmd.append('-DNDEBUG')
        if sanitize: cmd += ['-fsanitize=address,undefined', '-fno-sanitize-recover=all', '-fno-omit-frame-pointer']
        cmd += [src] + list(extra_src) + ['-o', out]
        r = subprocess.run(cmd, capture_output=True, text=True)
        if r.returncode != 0:
            raise BuildError(wrapper, defines, r.stderr)
        return out

    # ---------------------------------------------------------------- results
    def violation(s, key, what, replay=None):
        """report a violation unless the key is a listed known finding"""
        for f in s.findings:
            if f.get('status') == 'known' and f['property'] == s.pid and key_matches(f['key'], key):
                if f['key'] not in [k['key'] for k in s.known_hits]:
                    s.known_hits.append(dict(key=f['key'], what=f.get('what', what)))
                return False
        if any(v['key'] == key for v in s.violations): return True
        s.violations.append(dict(key=key, what=what, replay=replay))
        return True

    def replay_file(s, key, data):
        d = os.path.join(VERIF, 'replay', 'out'); os.makedirs(d, exist_ok=True)
        fn = os.path.join(d, '%s-%s.json' % (s.pid, hashlib.md5(key.encode()).hexdigest()[:10]))
        data = dict(data); data['property'] = s.pid; data['key'] = key
        with open(fn, 'w') as f: json.dump(data, f, indent=1, default=str)
        return fn

    def finish(s, level, level_text, rule, exhaustive, extra_cov=None):
        wall = time.time() - s.t0
        c = s.counters
        nq = len(s.queries)
        cov = dict(
            evaluations=max(1, c['paths'] + c['cbmc_runs'] + c['native_replays']),
            distinct_nontrivial=max(0, sum(1 for q in s.queries if q.get('nontrivial', True))),
            rule=rule,
            samples=s.samples[:6] if s.samples else [dict(note='no sample recorded')],
            states=max(1, c['paths'] + c['cbmc_props']),
            transitions=max(1, c['instr'] + c['cbmc_props']),
            traces_validated_against_impl=c['native_replays'] + c['diff_cases'],
            exhaustive=bool(exhaustive) and not s.inconclusive and not getattr(s, 'skipped', []),
            explanation=level_text,
            functions_encoded=sorted(s.functions)[:400],
            bounds=s.bounds,
            queries=s.queries[:400],
            queries_total=nq,
            paths_explored=c['paths'], ir_instructions_executed=c['instr'],
            solver_calls=c['solver_calls'], solver_seconds=round(c['solver_s'], 2), assertions_proved=c['proved'],
            cbmc_runs=c['cbmc_runs'], cbmc_properties_checked=c['cbmc_props'], cbmc_seconds=round(c['cbmc_s'], 2),
            differential_cases=c['diff_cases'], native_replays=c['native_replays'],
            known_findings_hit=s.known_hits, inconclusive=s.inconclusive, rows_skipped_for_budget=getattr(s, 'skipped', []), budget_s=s.budget_s,
            repo_rev=s.repo_rev,
        )
        if extra_cov: cov.update(extra_cov)
        ev = dict(property_id=s.pid, tier=s.tier, seed=s.seed, level=level, coverage=cov,
                  assumptions=s.assumptions, wall_s=round(wall, 2), violations=len(s.violations))
        os.makedirs(os.path.join(VERIF, 'evidence'), exist_ok=True)
        with open(os.path.join(VERIF, 'evidence', s.pid + '.json'), 'w') as f:
            json.dump(ev, f, indent=1, default=str)
        for k in s.known_hits:
            print('KNOWN-FINDING: property=%s %s [%s]' % (s.pid, k['what'], k['key']))
        for r in s.inconclusive:
            print('INCONCLUSIVE property=%s reason=%s' % (s.pid, r))
        for v in s.violations:
            print('  violation key=%s: %s' % (v['key'], v['what'][:500]))
            print('VIOLATION property=%s replay=%s' % (s.pid, v['replay'] or 'none'))
        print('%s %s tier=%s wall=%.1fs paths=%d cbmc_runs=%d solver_calls=%d violations=%d known=%d' % (
            s.pid, 'FAILED' if s.violations else 'ok', s.tier, wall, c['paths'], c['cbmc_runs'], c['solver_calls'],
            len(s.violations), len(s.known_hits)))
        return 1 if s.violations else 0


class BuildError(Exception):
    def __init__(s, wrapper, defines, stderr):
        Exception.__init__(s, 'build of %s %s failed' % (wrapper, list(defines)))
        s.wrapper = wrapper; s.defines = defines; s.stderr = stderr


def key_matches(pattern, key):
    """known-finding keys are exact, or prefix patterns ending in '*'"""
    if pattern.endswith('*'): return key.startswith(pattern[:-1])
    return pattern == key


def load_findings():
    fn = os.path.join(VERIF, 'known_findings.json')
    if not os.path.exists(fn): return []
    return json.load(open(fn)).get('findings', [])


def repo_rev():
    try:
        h = subprocess.run(['git', '-C', REPO, 'rev-parse', '--short', 'HEAD'], capture_output=True, text=True).stdout.strip()
        d = subprocess.run(['git', '-C', REPO, 'status', '--porcelain', '--untracked-files=no'], capture_output=True, text=True).stdout.strip()
        return h + ('+dirty' if d else '')
    except Exception:
        return 'unknown'


def demangle(names):
    try:
        r = subprocess.run(['c++filt'], input='\n'.join(names), capture_output=True, text=True)
        return r.stdout.split('\n')[:len(names)]
    except Exception:
        return list(names)


def limit_mem(gb):
    def f():
        resource.setrlimit(resource.RLIMIT_AS, (int(gb * 2**30), int(gb * 2**30)))
    return f
