"""driver: ./check <ID> [--tier quick|thorough] [--replay path]"""
import sys, os, importlib, traceback, argparse
from .common import Ctx, Inconclusive, BuildError


def main():
    ap = argparse.ArgumentParser()
    ap.add_argument('pid')
    ap.add_argument('--tier', default=os.environ.get('VERIF_TIER', 'quick'), choices=['quick', 'thorough'])
    ap.add_argument('--replay', default=None)
    ap.add_argument('--only', default=None, help='substring filter on query names (debugging)')
    a = ap.parse_args()
    seed = int(os.environ.get('VERIF_SEED', '1') or 1)
    if a.replay:
        from . import replay
        sys.exit(replay.run(a.pid, a.replay))
    mod = importlib.import_module('vf.props.' + a.pid)
    ctx = Ctx(a.pid, a.tier, seed); ctx.only = a.only
    try:
        rc = mod.run(ctx)
    except Inconclusive as e:
        ctx.inconclusive.append(str(e))
        rc = mod.finish(ctx) if hasattr(mod, 'finish') else ctx.finish('model_checking', 'inconclusive', 'n/a', False)
    sys.stdout.flush()
    sys.exit(rc)


if __name__ == '__main__':
    main()
