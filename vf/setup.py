"""MANIFEST.setup_cmd: offline sanity check of the tools the checks need + byte-compile"""
import subprocess, sys, compileall, os
ok = True
for cmd in (['cbmc', '--version'], ['clang++-14', '--version'], ['g++', '--version'], ['gcc', '--version']):
    try:
        r = subprocess.run(cmd, capture_output=True, text=True)
        print(cmd[0], r.stdout.split('\n')[0])
    except Exception as e:
        print('MISSING', cmd[0], e); ok = False
try:
    import z3; print('z3', z3.get_version_string())
except Exception as e:
    print('MISSING z3 python', e); ok = False
compileall.compile_dir(os.path.dirname(os.path.abspath(__file__)), quiet=1)
sys.exit(0 if ok else 1)
