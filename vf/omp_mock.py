"""Mock of the libomp entry points clang 14 emits for `#pragma omp parallel / master / task depend(...) / taskwait`
(-fopenmp -fopenmp-version=45), run inside the irsym interpreter.

What it decides per path (one tree shape):
  * schedule 0 "undeferred":  every task body runs at its creation point (legal: an implementation may execute any task immediately)
  * schedule 1 "deferred FIFO": no task runs before the final taskwait; creator frames and closures are dead by then, so every
                               access to a variable whose lifetime has ended is reported by the interpreter's memory model;
                               the read/write footprint of every task is recorded and every pair of tasks that is neither ordered
                               by the declared dependences nor mutually exclusive is checked for conflicting accesses (data race)
  * schedule 2 "deferred, latest ready first": a different linear extension of the dependence graph
The worker id returned by omp_get_thread_num() inside a task follows a policy tied to the schedule (all 0 / round robin / reversed).
"""
import bisect
from .irsym import Violation, Unsupported, UNDEF, Partial

KMP_TASK_T = 40          # { void* shareds; routine; i32 part_id; (pad); data1; data2 }
DEP_SIZE = 24            # { i64 base_addr; i64 len; i8 flags }


class Task:
    __slots__ = ('id', 'ptr', 'entry', 'deps', 'preds', 'mutex', 'done', 'reads', 'writes', 'start_seq', 'worker', 'reach')
    def __init__(s, tid, ptr, entry):
        s.id = tid; s.ptr = ptr; s.entry = entry; s.deps = []; s.preds = set(); s.mutex = set(); s.done = False
        s.reads = {}; s.writes = {}; s.start_seq = 0; s.worker = 0; s.reach = set()


class State:
    def __init__(s, it, opts):
        s.it = it; s.T = int(opts.get('omp_threads', 4)); s.schedules = opts.get('omp_schedules', (0, 1, 2))
        s.reset(it)

    def reset(s, it=None):
        s.mode = 0; s.tasks = []; s.alloc = {}; s.sched = 1; s.current = None; s.in_parallel = False
        s.last_out = {}; s.readers = {}; s.mtx_group = {}; s.nrun = 0; s.wl_regions = []

    # ---------------------------------------------------------------- entry points
    def omp_mode(s, it, a):
        s.mode = a[0]
        if s.mode == 1:
            if it.concrete_syms is not None or len(s.schedules) == 1: s.sched = s.schedules[0] if len(s.schedules) == 1 else 1
            else:
                d = it.decide(len(s.schedules), None); s.sched = s.schedules[d]
            it.notes.append((50, s.sched))
        return None

    def worker_local(s, it, a):
        # [ptr, ptr+bytes): per-worker objects (kernels[omp_get_thread_num()]): two tasks run by the same worker never overlap in time
        s.wl_regions.append((a[0], a[0] + a[1])); return None

    def max_threads(s, it, a): return s.T

    def thread_num(s, it, a):
        return s.current.worker if s.current is not None else 0

    def global_thread_num(s, it, a): return 0

    def fork_call(s, it, a):
        # (ident*, argc, microtask, args...): the team is modelled by its master; the other workers exist as ids only
        argc = a[1]; fn = it.addrfn.get(a[2])
        if fn is None: raise Violation('__kmpc_fork_call through an invalid function pointer')
        g = it.mem.alloc(4, 'stack', 'omp.gtid', 4); b = it.mem.alloc(4, 'stack', 'omp.btid', 4)
        it.mem.store(g.base, 4, 0); it.mem.store(b.base, 4, 0)
        s.in_parallel = True
        it.call(fn, [g.base, b.base] + list(a[3:3 + argc]))
        # implicit barrier at the end of the parallel region: every task has completed
        s.drain(it)
        s.in_parallel = False
        g.alive = False; b.alive = False
        return None

    def master(s, it, a): return 1
    def end_master(s, it, a): return None

    def task_alloc(s, it, a):
        # (ident*, gtid, flags, sizeof_kmp_task_t, sizeof_shareds, entry)
        size_task, size_sh, entry = a[3], a[4], a[5]
        if not all(isinstance(x, int) for x in (size_task, size_sh, entry)): raise Unsupported('symbolic task allocation')
        off_sh = (size_task + 15) // 16 * 16
        o = it.mem.alloc(off_sh + size_sh, 'heap', 'omp.task#%d' % len(s.alloc)); it.heap_live[o.base] = o
        it.mem.store(o.base, 8, (o.base + off_sh) if size_sh else 0)
        it.mem.store(o.base + 8, 8, entry)
        it.mem.store(o.base + 16, 4, 0)
        it.mem.store(o.base + 24, 8, 0); it.mem.store(o.base + 32, 8, 0)
        s.alloc[o.base] = entry
        return o.base

    def task_with_deps(s, it, a):
        # (ident*, gtid, task*, ndeps, dep_list, ndeps_noalias, noalias_list)
        t = s.new_task(it, a[2])
        ndeps, lst = a[3], a[4]
        for i in range(ndeps):
            base = it.mem.load(lst + i * DEP_SIZE, 8); ln = it.mem.load(lst + i * DEP_SIZE + 8, 8); fl = it.mem.load(lst + i * DEP_SIZE + 16, 1)
            if not all(isinstance(x, int) for x in (base, ln, fl)): raise Unsupported('symbolic dependence record')
            t.deps.append((base, ln, fl))
        s.link(t)
        return s.submitted(it, t)

    def task_nodeps(s, it, a):
        t = s.new_task(it, a[2]); s.link(t)
        return s.submitted(it, t)

    def taskwait(s, it, a):
        s.drain(it); return 0

    # ---------------------------------------------------------------- task graph
    def new_task(s, it, ptr):
        entry = s.alloc.get(ptr)
        if entry is None: raise Violation('task submitted with a pointer that __kmpc_omp_task_alloc did not return')
        t = Task(len(s.tasks), ptr, entry); s.tasks.append(t); return t

    def link(s, t):
        """OpenMP 4.5/5.0 dependence rules over submission order, per base address"""
        for (addr, ln, fl) in t.deps:
            is_in = (fl & 0x7) == 0x1
            is_mtx = bool(fl & 0x4)
            outs = s.last_out.get(addr, []); rds = s.readers.get(addr, [])
            if is_in:
                t.preds.update(x.id for x in outs)
                s.readers.setdefault(addr, []).append(t)
            elif is_mtx and s.mtx_group.get(addr):
                grp = s.mtx_group[addr]
                t.preds.update(grp[0].preds)              # same predecessors as the group, mutually exclusive with its members
                for x in grp: t.mutex.add(x.id); x.mutex.add(t.id)
                grp.append(t); s.last_out[addr] = list(grp)
            else:
                t.preds.update(x.id for x in rds); t.preds.update(x.id for x in outs)
                s.last_out[addr] = [t]; s.readers[addr] = []
                s.mtx_group[addr] = [t] if is_mtx else None
            if not is_mtx and not is_in: s.mtx_group[addr] = None
        t.preds.discard(t.id)
        r = set()
        for p in t.preds: r.add(p); r |= s.tasks[p].reach
        t.reach = r

    def submitted(s, it, t):
        if s.sched == 0:
            s.run(it, t)        # undeferred: its predecessors were all submitted earlier and have therefore already run
        return 0

    def run(s, it, t):
        fn = it.addrfn.get(t.entry)
        if fn is None: raise Violation('task entry is not a function')
        pol = s.sched
        t.worker = 0 if pol == 0 else (s.nrun % s.T if pol == 1 else (s.T - 1 - (s.nrun % s.T)))
        s.nrun += 1
        prev, prev_trace = s.current, it.trace_mem
        s.current = t; t.start_seq = it.mem.nalloc
        it.trace_mem = [] if s.sched == 1 else None
        try:
            it.call(fn, [0, t.ptr])
        finally:
            tr = it.trace_mem; it.trace_mem = prev_trace; s.current = prev
        if tr: s.footprint(it, t, tr)
        t.done = True
        o = it.heap_live.pop(t.ptr, None)
        if o is not None: o.alive = False          # the runtime frees the task object after completion

    def drain(s, it):
        pending = [t for t in s.tasks if not t.done]
        if not pending: return
        if s.sched == 2:
            while pending:
                ready = [t for t in pending if all(s.tasks[p].done for p in t.preds)]
                if not ready: raise Violation('dependence graph has a cycle')
                t = ready[-1]; pending.remove(t); s.run(it, t)
        else:
            for t in pending: s.run(it, t)
        if s.sched == 1: s.check_races(it)

    # ---------------------------------------------------------------- footprints / races
    def footprint(s, it, t, trace):
        bases = it.mem.bases; objs = it.mem.objs
        for kind, addr, n in trace:
            i = bisect.bisect_right(bases, addr) - 1
            if i < 0: continue
            o = objs[i]
            if o.kind not in ('heap', 'global') or o.seq >= t.start_seq or o.base == t.ptr: continue
            d = t.writes if kind == 'w' else t.reads
            d.setdefault(o.base, []).append((addr - o.base, addr - o.base + n))
        for d in (t.reads, t.writes):
            for k, iv in d.items():
                iv.sort(); out = []
                for lo, hi in iv:
                    if out and lo <= out[-1][1]: out[-1] = (out[-1][0], max(out[-1][1], hi))
                    else: out.append((lo, hi))
                d[k] = out

    @staticmethod
    def overlap(a, b):
        i = j = 0
        while i < len(a) and j < len(b):
            lo = max(a[i][0], b[j][0]); hi = min(a[i][1], b[j][1])
            if lo < hi: return lo
            if a[i][1] < b[j][1]: i += 1
            else: j += 1
        return None

    def check_races(s, it):
        ts = s.tasks
        for j in range(len(ts)):
            tj = ts[j]
            for i in range(j):
                ti = ts[i]
                if i in tj.reach or i in tj.mutex: continue
                for base, wr in ti.writes.items():
                    for other in (tj.writes.get(base), tj.reads.get(base)):
                        if other:
                            off = s.overlap(wr, other)
                            if off is not None: s.report(it, ti, tj, base, off)
                for base, wr in tj.writes.items():
                    other = ti.reads.get(base)
                    if other:
                        off = s.overlap(wr, other)
                        if off is not None: s.report(it, ti, tj, base, off)

    def is_worker_local(s, addr):
        return any(lo <= addr < hi for lo, hi in s.wl_regions)

    def report(s, it, ti, tj, base, off):
        if ti.worker == tj.worker and s.is_worker_local(base + off): return
        def nm(t):
            fn = it.addrfn.get(t.entry, '?')
            return 'task #%d (%s, depend %s)' % (t.id, fn, ', '.join('%s:%s' % ({1: 'in', 3: 'inout', 2: 'out', 4: 'mutexinoutset'}.get(fl & 7, fl), it.describe(a)) for a, ln, fl in t.deps))
        raise Violation('data race: %s and %s both access %s (at least one writes) and the declared dependences neither order them nor make them mutually exclusive'
                        % (nm(ti), nm(tj), it.describe(base + off)), 'race')


def install(it, opts):
    st = State(it, opts)
    it.omp = st
    it.path_start_hook = st.reset
    it.hooks.update({
        'irsym_omp_mode': st.omp_mode, 'irsym_omp_worker_local': st.worker_local, 'omp_get_max_threads': st.max_threads, 'omp_get_thread_num': st.thread_num,
        '__kmpc_global_thread_num': st.global_thread_num, '__kmpc_fork_call': st.fork_call, '__kmpc_master': st.master,
        '__kmpc_end_master': st.end_master, '__kmpc_omp_task_alloc': st.task_alloc, '__kmpc_omp_task_with_deps': st.task_with_deps,
        '__kmpc_omp_task': st.task_nodeps, '__kmpc_omp_taskwait': st.taskwait,
    })
