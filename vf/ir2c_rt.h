/* runtime support for ir2c-generated C: compiled both by cbmc and by gcc (differential test) */
#ifndef IR2C_RT_H
#define IR2C_RT_H
#include <stdint.h>
#include <stddef.h>
#include <string.h>
#include <stdlib.h>
#include <math.h>

#ifndef __CPROVER__
#include <stdio.h>
#define __CPROVER_assume(c) do { if(!(c)) { fprintf(stderr, "assume(0) reached\n"); abort(); } } while(0)
#define __CPROVER_assert(c, msg) do { if(!(c)) { fprintf(stderr, "ASSERT FAILED: %s\n", msg); abort(); } } while(0)
#endif

#define SEXT(v, n) ((int64_t)((uint64_t)(v) << (64 - (n))) >> (64 - (n)))

static inline void* ir_new(uint64_t n) {
  void* p = malloc(n ? n : 1);
  __CPROVER_assume(p != 0);
  return p;
}
static inline void ir_delete(void* p) { free(p); }
static inline void ir_delete_sized(void* p, uint64_t n) { (void)n; free(p); }
static inline void ir_assert_fail(uint8_t* e, uint8_t* f, uint32_t l, uint8_t* fn) {
  (void)e; (void)f; (void)l; (void)fn;
  __CPROVER_assert(0, "library assert() failed");
  __CPROVER_assume(0);
}
static inline void ir_throw(void) { __CPROVER_assert(0, "C++ exception thrown"); __CPROVER_assume(0); }
static inline void ir_throw_str(uint8_t* m) { (void)m; ir_throw(); }
static inline void ir_abort(void) { __CPROVER_assert(0, "abort() called"); __CPROVER_assume(0); }
static inline uint8_t* ir_getenv(uint8_t* n) { (void)n; return 0; }

static inline uint64_t ir_ctlz(uint64_t v, int n) { int c = 0; for (int i = n - 1; i >= 0; --i) { if ((v >> i) & 1) break; ++c; } return c; }
static inline uint64_t ir_cttz(uint64_t v, int n) { int c = 0; for (int i = 0; i < n; ++i) { if ((v >> i) & 1) break; ++c; } return c; }
static inline uint64_t ir_ctpop(uint64_t v, int n) { int c = 0; for (int i = 0; i < n; ++i) c += (v >> i) & 1; return c; }

#ifndef IR2C_RT_MEM
#define IR2C_RT_MEM
static inline void ir_memcpy(void* d, const void* s, uint64_t n) { unsigned char* dd = (unsigned char*)d; const unsigned char* ss = (const unsigned char*)s; for (uint64_t i = 0; i < n; ++i) dd[i] = ss[i]; }
static inline void ir_memmove(void* d, const void* s, uint64_t n) { unsigned char* dd = (unsigned char*)d; const unsigned char* ss = (const unsigned char*)s;
  if ((uintptr_t)dd <= (uintptr_t)ss) { for (uint64_t i = 0; i < n; ++i) dd[i] = ss[i]; } else { for (uint64_t i = n; i > 0; --i) dd[i-1] = ss[i-1]; } }
static inline void ir_memset(void* d, int c, uint64_t n) { unsigned char* dd = (unsigned char*)d; for (uint64_t i = 0; i < n; ++i) dd[i] = (unsigned char)c; }
#endif
#endif
