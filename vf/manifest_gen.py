"""writes MANIFEST.json from the table below (python3 -m vf.manifest_gen)"""
import json, os
V = os.path.dirname(os.path.dirname(os.path.abspath(__file__)))
CHECKS = {}
NA = {}

def chk(pid, category, text, note, technique, design_ref, engine, thorough=True):
    CHECKS[pid] = dict(property_id=pid, quick_cmd='./check %s --tier quick' % pid,
                       evidence_file='evidence/%s.json' % pid, replay_cmd_template='./check %s --replay {path}' % pid, engine=engine,
                       level_claimed=dict(category=category, text=text, design_ref=design_ref), level_note=note, technique=technique)
    if thorough: CHECKS[pid]['thorough_cmd'] = './check %s --tier thorough' % pid

from .manifest_table import fill
fill(chk, NA)

m = dict(version=1,
         setup_cmd='python3-vt -B -m vf.setup',
         hooks=dict(guard='BERENGER_EU_TBFMM_VERIF', enable='-DBERENGER_EU_TBFMM_VERIF on every clang/g++ command line the checks issue (no source hook is needed: observation is through the public API and kernel callbacks)',
                    baseline_off_cmd='cmake --build /repo/_build && ctest --test-dir /repo/_build -j8 --timeout 900', source_commits=[], add_only=True),
         engines=[dict(name='E1 ir2c+cbmc', path='vf/e1.py', serves_properties=sorted(p for p, c in CHECKS.items() if 'E1' in c['engine']), kind_free_text='clang IR -> C translator + cbmc 6.11 bounded model checking with unwinding assertions, witness twins, native replay'),
                  dict(name='E2 irsym', path='vf/irsym.py', serves_properties=sorted(p for p, c in CHECKS.items() if 'E2' in c['engine']), kind_free_text='path-forking symbolic interpreter over clang IR of the real headers, z3 5.1; harness assertions proved per path over symbolic payload'),
                  dict(name='E3 irsym-real', path='vf/e3.py', serves_properties=sorted(p for p, c in CHECKS.items() if 'E3' in c['engine']), kind_free_text='symbolic execution of the P2P IR with reals, z3 nlsat')],
         checks=[CHECKS[k] for k in sorted(CHECKS)],
         not_applicable=[dict(property_id=k, reason=NA[k]) for k in sorted(NA)],
         notes='All checks regenerate their encoding from /repo working tree on every run. See DESIGN.md.')
json.dump(m, open(os.path.join(V, 'MANIFEST.json'), 'w'), indent=1)
print('checks:', sorted(CHECKS), 'n/a:', sorted(NA))
