"""E1: IR -> C (ir2c) -> cbmc, with automatic per-loop unwind refinement, witness twin,
differential self-check of the translation and native replay of counterexamples."""
import os, re, subprocess, time, json, hashlib
from concurrent.futures import ThreadPoolExecutor
from . import ir2c
from .common import VERIF, REPO, GUARD, Inconclusive, BuildError, limit_mem, demangle

HARN = os.path.join(VERIF, 'harness')
CBMC_FLAGS = ['--unwinding-assertions', '--drop-unused-functions', '--pointer-overflow-check',
              '--undefined-shift-check', '--signed-overflow-check', '--no-malloc-may-fail']
MODELS = {
    '_Znwm': 'ir_new', '_Znam': 'ir_new', '_ZdlPv': 'ir_delete', '_ZdaPv': 'ir_delete',
    '_ZdlPvm': 'ir_delete_sized', '_ZdaPvm': 'ir_delete_sized', '__assert_fail': 'ir_assert_fail',
    '_ZSt20__throw_length_errorPKc': 'ir_throw_str', '_ZSt17__throw_bad_allocv': 'ir_throw',
    '_ZSt28__throw_bad_array_new_lengthv': 'ir_throw', '_ZSt25__throw_bad_function_callv': 'ir_throw',
    '_ZSt27__throw_bad_optional_accessv': 'ir_throw',
    'memcmp': 'memcmp', 'memchr': 'memchr', 'strlen': 'strlen', 'sqrt': 'sqrt', 'sqrtf': 'sqrtf',
    'getenv': 'ir_getenv', 'abort': 'ir_abort',
}


def translate(ctx, wrapper, wdefs, flavour):
    """wrapper .cpp -> IR -> generated C; returns (c_path, module)"""
    ll = ctx.build_ir(wrapper, wdefs, flavour)
    cpath = ll[:-3] + '.c'
    m = ir2c.parse_module(open(ll).read())
    if not os.path.exists(cpath):
        e = ir2c.Emit(m, MODELS)
        body = e.emit()
        with open(cpath, 'w') as f: f.write(body)
    return cpath, m


def _query_file(ctx, cpath, harness, tag):
    q = ctx.path('q_%s.c' % tag)
    with open(q, 'w') as f:
        f.write('#include "%s"\n#include "%s"\n#include "%s"\n' % (os.path.join(HARN, 'e1.h'), cpath, os.path.join(HARN, harness)))
    return q


def cbmc_refine(qfile, entry, hdefs, u0, umax, timeout, mem_gb=12, extra=()):
    """returns dict(status, fails=[(id,desc)], props, bounds, wall, iters, out)"""
    bounds = {}; t0 = time.time(); it = 0
    base = ['cbmc', qfile, '--function', entry, '-I', os.path.join(VERIF, 'vf'), '-I', HARN] + ['-D' + d for d in hdefs] + list(extra)
    while True:
        it += 1
        cmd = base + ['--unwind', str(u0)] + CBMC_FLAGS
        if bounds: cmd += ['--unwindset', ','.join('%s:%d' % kv for kv in bounds.items())]
        left = timeout - (time.time() - t0)
        if left <= 1: return dict(status='TIMEOUT', fails=[], props=0, bounds=bounds, wall=time.time() - t0, iters=it, cmd=cmd)
        try:
            r = subprocess.run(cmd, capture_output=True, text=True, timeout=left, preexec_fn=limit_mem(mem_gb))
        except subprocess.TimeoutExpired:
            return dict(status='TIMEOUT', fails=[], props=0, bounds=bounds, wall=time.time() - t0, iters=it, cmd=cmd)
        out = r.stdout
        if 'VERIFICATION' not in out:
            return dict(status='ERROR', fails=[], props=0, bounds=bounds, wall=time.time() - t0, iters=it, cmd=cmd, out=(out[-1500:] + r.stderr[-1500:]))
        fails = re.findall(r'^\[(\S+)\] (.*): FAILURE$', out, re.M)
        unw = [f for f in fails if '.unwind.' in f[0]]
        other = [f for f in fails if '.unwind.' not in f[0]]
        mm = re.search(r'\*\* (\d+) of (\d+) failed', out)
        props = int(mm.group(2)) if mm else 0
        if not unw:
            return dict(status='FAILED' if other else 'SUCCESS', fails=other, props=props, bounds=bounds,
                        wall=time.time() - t0, iters=it, cmd=cmd)
        # unwinding assertions still fail: refine the bounds first (also when another property already fails, so that the
        # counterexample we extract later is within the final bounds); give up refining when a bound is exhausted
        exhausted = []
        for pid, desc in unw:
            fn, n = pid.rsplit('.unwind.', 1)
            key = '%s.%s' % (fn, n)
            cur = bounds.get(key, u0)
            if cur >= umax: exhausted.append((pid, 'loop bound %d exhausted: %s' % (umax, desc)))
            else: bounds[key] = min(umax, cur * 2 + 1)
        if exhausted:
            if other:
                return dict(status='FAILED', fails=other, props=props, bounds=bounds, wall=time.time() - t0, iters=it, cmd=cmd)
            return dict(status='BOUND', fails=exhausted, props=props, bounds=bounds, wall=time.time() - t0, iters=it, cmd=cmd)


def get_trace_inputs(cmd, entry, timeout, prop=None):
    """re-run cbmc with --trace for one failed property and extract harness-level variable assignments"""
    cmd = cmd + ['--trace', '--stop-on-fail'] + (['--property', prop] if prop else [])
    try:
        r = subprocess.run(cmd, capture_output=True, text=True, timeout=timeout, preexec_fn=limit_mem(12))
    except subprocess.TimeoutExpired:
        return None, ''
    vals = {}
    infn = False
    for ln in r.stdout.split('\n'):
        if ln.startswith('State '):
            infn = (' function %s ' % entry) in ln + ' '
            continue
        if infn:
            m = re.match(r'^\s+([A-Za-z_][A-Za-z0-9_]*(?:\[\d+l?\])*)=(-?\d+)(?:ul|l|u)?\b(?![.0-9ef])', ln)
            if m:
                nm = re.sub(r'\[(\d+)l\]', r'[\1]', m.group(1))
                vals[nm] = int(m.group(2)) & (2**64 - 1)
            else:
                m = re.match(r'^\s+([A-Za-z_][A-Za-z0-9_]*)=[-+0-9.eEinfNa]+f? \(([01 ]+)\)', ln)      # floating-point value: keep its bit pattern
                if m: vals[m.group(1) + '_bits'] = int(m.group(2).replace(' ', ''), 2)
    mm = re.search(r'Violated property:\n(.*)\n(.*)\n', r.stdout)
    viol = (mm.group(1).strip() + ' ' + mm.group(2).strip()) if mm else ''
    return vals, viol


def native_build(ctx, wrapper, wdefs, harness, entry, hdefs, genc_path=None, sanitize=True, ndebug=False):
    """native executable of the harness against the real wrapper (or the generated C when genc_path)"""
    key = hashlib.md5(repr((wrapper, tuple(wdefs), harness, entry, tuple(hdefs), bool(genc_path), sanitize, ndebug)).encode()).hexdigest()[:10]
    exe = ctx.path('e1nat_%s' % key)
    if os.path.exists(exe): return exe
    san = ['-fsanitize=address,undefined', '-fno-sanitize-recover=all'] if sanitize else []
    hobj = ctx.path('h_%s.o' % key)
    hsrc = ctx.path('h_%s.c' % key)
    with open(hsrc, 'w') as f:
        if genc_path: f.write('#include "%s"\n' % genc_path)
        f.write('#include "%s"\n#include "%s"\n' % (os.path.join(HARN, 'e1.h'), os.path.join(HARN, harness)))
    cmd = ['gcc', '-std=gnu11', '-O1', '-g', '-w', '-c', hsrc, '-o', hobj, '-I', os.path.join(VERIF, 'vf'), '-I', HARN] + ['-D' + d for d in hdefs] + san
    if genc_path: cmd.append('-DGENC')
    r = subprocess.run(cmd, capture_output=True, text=True)
    if r.returncode: raise Inconclusive('gcc harness build failed: ' + r.stderr[-800:])
    mobj = ctx.path('m_%s.o' % key)
    r = subprocess.run(['gcc', '-std=gnu11', '-O1', '-g', '-w', '-c', os.path.join(HARN, 'e1_main.c'), '-o', mobj, '-DHARNESS=' + entry] + san, capture_output=True, text=True)
    if r.returncode: raise Inconclusive('gcc main build failed: ' + r.stderr[-800:])
    objs = [hobj, mobj]
    if not genc_path:
        wobj = ctx.path('w_%s.o' % key)
        cmd = ['g++', '-std=c++17', '-O1', '-g', '-w', '-D' + GUARD, '-I' + os.path.join(REPO, 'src'), '-I' + os.path.join(VERIF, 'wrappers'),
               '-c', os.path.join(VERIF, 'wrappers', wrapper), '-o', wobj] + ['-D' + d for d in wdefs] + san + (['-DNDEBUG'] if ndebug else [])
        r = subprocess.run(cmd, capture_output=True, text=True)
        if r.returncode: raise BuildError(wrapper, wdefs, r.stderr)
        objs.append(wobj)
    r = subprocess.run(['g++', '-o', exe] + objs + san + ['-lm'], capture_output=True, text=True)
    if r.returncode: raise Inconclusive('link failed: ' + r.stderr[-800:])
    return exe


def replay_native(ctx, exe, vals, timeout=20):
    fn = ctx.path('in_%s.txt' % hashlib.md5(repr(sorted(vals.items())).encode()).hexdigest()[:10])
    with open(fn, 'w') as f:
        for k, v in vals.items(): f.write('%s %d\n' % (k, v))
    ctx.counters['native_replays'] += 1
    try:
        r = subprocess.run([exe, 'replay', fn], capture_output=True, text=True, timeout=timeout,
                           env=dict(os.environ, ASAN_OPTIONS='detect_leaks=0'))      # the harness leaves by longjmp on a failed assertion/assumption: leaks of harness buffers are not the subject
    except subprocess.TimeoutExpired:
        return 'hang', 'no termination within %ds' % timeout
    if r.returncode == 0: return 'holds', r.stdout.strip()[-300:]
    return 'fails', (r.stdout.strip()[-400:] + ' ' + r.stderr.strip()[-1200:])


def diff_check(ctx, wrapper, wdefs, harness, entry, hdefs, n):
    """same seeded random inputs through the real g++ build and the gcc build of the generated C
    (both as shipped: NDEBUG, no sanitizer instrumentation - this validates the translator)"""
    cpath, _ = translate(ctx, wrapper, wdefs, 'plain')
    a = native_build(ctx, wrapper, wdefs, harness, entry, hdefs, None, sanitize=False, ndebug=True)
    b = native_build(ctx, wrapper, wdefs, harness, entry, hdefs, cpath, sanitize=False, ndebug=True)
    outs = []
    for exe in (a, b):
        try:
            r = subprocess.run([exe, 'random', str(ctx.seed + 1), str(n)], capture_output=True, text=True, timeout=120)
        except subprocess.TimeoutExpired:
            return None, 'timeout'
        outs.append(r.stdout.strip() or ('rc=%d %s' % (r.returncode, r.stderr.strip()[-200:])))
    ctx.counters['diff_cases'] += n
    return outs[0] == outs[1], '%s | %s' % (outs[0], outs[1])


def query(ctx, name, wrapper, wdefs, harness, entry, hdefs=(), u0=3, umax=130, timeout=600, flavour='ubsan',
          witness=True, diff=3000, extra=(), note='', mem_gb=12):
    """one E1 query incl. witness twin, differential self-check, native replay of counterexamples.
    returns status string; reports violations / inconclusive results into ctx."""
    t0 = time.time()
    left = getattr(ctx, 'deadline', t0 + 10**9) - t0
    if left < 30:
        ctx.skipped.append(name); return 'SKIPPED'
    timeout = min(timeout, max(30, left - 10))
    try:
        cpath, m = translate(ctx, wrapper, wdefs, flavour)
    except ir2c.Unsupported as ex:
        ctx.inconclusive.append('%s: IR construct outside the encoder subset: %s' % (name, str(ex)[:200])); return 'UNSUPPORTED'
    for fn in m.funcs: ctx.functions.add(fn)
    tag = hashlib.md5(repr((name, wrapper, tuple(wdefs), harness, entry, tuple(hdefs))).encode()).hexdigest()[:10]
    q = _query_file(ctx, cpath, harness, tag)
    rec = dict(name=name, engine='E1 ir2c+cbmc', wrapper=wrapper, wrapper_defines=list(wdefs), harness=harness, entry=entry,
               harness_defines=list(hdefs), ir_flavour=flavour, note=note)
    # translation self-check
    if diff:
        ok, info = diff_check(ctx, wrapper, wdefs, harness, entry, hdefs, diff)
        rec['differential'] = info
        if not ok:
            ctx.inconclusive.append('%s: encoder self-check mismatch (real g++ build vs generated C): %s' % (name, info))
            ctx.queries.append(rec); return 'ENCODER'
    res = cbmc_refine(q, entry, hdefs, u0, umax, timeout, mem_gb=mem_gb, extra=extra)
    ctx.counters['cbmc_runs'] += res['iters']; ctx.counters['cbmc_props'] += res['props']; ctx.counters['cbmc_s'] += res['wall']
    rec.update(status=res['status'], properties=res['props'], unwind_bounds=res['bounds'], unwind_default=u0, unwind_max=umax,
               refinement_rounds=res['iters'], cbmc_wall_s=round(res['wall'], 1), failures=[d for _, d in res['fails']][:10])
    status = res['status']
    if status in ('TIMEOUT', 'ERROR'):
        ctx.inconclusive.append('%s: cbmc %s after %.0fs %s' % (name, status, res['wall'], res.get('out', '')[-300:]))
        ctx.queries.append(rec); return status
    if status in ('FAILED', 'BOUND'):
        cmd = res['cmd']
        vals, viol = get_trace_inputs(cmd, entry, max(60, timeout), res['fails'][0][0])
        rec['counterexample'] = vals; rec['violated'] = viol
        descs = sorted(set(re.sub(r'^line \d+ ', '', d) for _, d in res['fails']))
        kind = 'unwind' if status == 'BOUND' else 'assert'
        key = '%s:%s:%s' % (name, kind, re.sub(r'[^A-Za-z0-9_.<>=+-]+', '_', descs[0])[:80])
        what = '%s: %s' % (name, '; '.join(descs)[:400])
        if vals is None:
            ctx.inconclusive.append('%s: counterexample trace not obtained' % name)
        else:
            exe = native_build(ctx, wrapper, wdefs, harness, entry, hdefs, None, sanitize=True)
            verdict, info = replay_native(ctx, exe, vals)
            rec['native_replay'] = [verdict, info[:600]]
            rp = ctx.replay_file(key, dict(engine='E1', wrapper=wrapper, wrapper_defines=list(wdefs), harness=harness, entry=entry,
                                           harness_defines=list(hdefs), inputs=vals, violated=viol, native=verdict, native_output=info[:1500]))
            if verdict in ('fails', 'hang'):
                ctx.violation(key, what + ' | counterexample %s | native replay: %s %s' % (json.dumps(vals)[:300], verdict, info[:300]), rp)
            else:
                # does not reproduce natively: either pure UB that the compiler happened to compile benignly, or an encoder problem
                if 'trap' in ' '.join(descs) or 'overflow' in ' '.join(descs) or 'shift' in ' '.join(descs):
                    ctx.violation(key, what + ' | counterexample %s | UB-class obligation, native run with sanitizers: %s' % (json.dumps(vals)[:300], info[:200]), rp)
                else:
                    ctx.inconclusive.append('%s: cbmc counterexample does not reproduce natively (%s): %s' % (name, viol, json.dumps(vals)[:300]))
    if witness and status == 'SUCCESS':
        wres = cbmc_refine(q, entry, list(hdefs) + ['WITNESS'], u0, umax, timeout, mem_gb=mem_gb, extra=extra)
        ctx.counters['cbmc_runs'] += wres['iters']; ctx.counters['cbmc_s'] += wres['wall']
        wf = [d for _, d in wres['fails']]
        rec['witness'] = dict(status=wres['status'], failures=wf[:3])
        if not (wres['status'] == 'FAILED' and any('witness' in d for d in wf)):
            ctx.inconclusive.append('%s: witness twin did not fail (%s) - harness may be vacuous' % (name, wres['status']))
            status = 'VACUOUS'
    rec['wall_s'] = round(time.time() - t0, 1)
    ctx.queries.append(rec)
    if len(ctx.samples) < 6 and status == 'SUCCESS':
        ctx.samples.append(dict(query=name, verdict='cbmc: %d properties hold for all inputs within the bound' % res['props'],
                                unwind_bounds=res['bounds'], cmd=' '.join(os.path.basename(x) if x.startswith('/') else x for x in res['cmd'])[:400]))
    return status


def run_many(ctx, specs, jobs=None):
    """specs: list of kwargs dicts for query(); run concurrently"""
    jobs = jobs or max(1, min(len(specs), (os.cpu_count() or 4)))
    with ThreadPoolExecutor(jobs) as ex:
        futs = [(sp['name'], ex.submit(_safe_query, ctx, sp)) for sp in specs]
        return {n: f.result() for n, f in futs}


def _safe_query(ctx, sp):
    try:
        return query(ctx, **sp)
    except Inconclusive as e:
        ctx.inconclusive.append('%s: %s' % (sp['name'], e)); return 'INCONCLUSIVE'
    except BuildError as e:
        ctx.violation('%s:build' % sp['name'], 'wrapper %s %s does not compile: %s' % (e.wrapper, list(e.defines), e.stderr[-600:]), None)
        return 'BUILD'
