#!/bin/bash
# run every claimed check (quick tier by default) on /repo as it is; summary to stdout
cd /verif
TIER=${1:-quick}
for id in $(python3 -c "import json; print(' '.join(c['property_id'] for c in json.load(open('MANIFEST.json'))['checks']))"); do
  s=$(date +%s); ./check $id --tier $TIER > /var/tmp/runall_$id.log 2>&1; rc=$?; e=$(date +%s)
  echo "$id rc=$rc $((e-s))s $(grep -c '^KNOWN-FINDING' /var/tmp/runall_$id.log) known, $(grep -c '^INCONCLUSIVE' /var/tmp/runall_$id.log) inconclusive, $(grep -c '^VIOLATION' /var/tmp/runall_$id.log) violations"
done
