#!/usr/bin/env python3
"""copy a confirmed seeded change from its scratch worktree into /verif/seeded/<name>/ and write meta.json
usage: keep_seed.py <worktree> <name> <property> "<needs>" """
import sys, os, shutil, json, subprocess
wt, name, prop, needs = sys.argv[1:5]
dst = os.path.join('/verif/seeded', name); os.makedirs(dst, exist_ok=True)
for f in ('patch.diff', 'demo.cpp', 'README.md', 'confirm.txt'):
    p = os.path.join(wt, '_seed', f)
    if os.path.exists(p): shutil.copy(p, os.path.join(dst, f))
conf = open(os.path.join(dst, 'confirm.txt')).read() if os.path.exists(os.path.join(dst, 'confirm.txt')) else ''
base = subprocess.run(['git', '-C', wt, 'rev-parse', '--short', 'HEAD'], capture_output=True, text=True).stdout.strip()
meta = dict(id=name, breaks_property=prop, needs_to_manifest=needs, base_commit=base,
            produced_by='independent sub-agent given only the property text and a scratch worktree',
            confirmed_by_me=dict(ran='tools/confirm_seed.sh: patch applied to the pristine worktree, cmake --build, ctest (26 tests), demo.cpp with and without the patch', result=conf.strip().split('\n')),
            detected_by=[])
json.dump(meta, open(os.path.join(dst, 'meta.json'), 'w'), indent=1)
print('kept', dst)
