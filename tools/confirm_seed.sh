#!/bin/bash
# confirm a seeded change produced by a sub-agent: usage confirm_seed.sh <worktree dir> [extra g++ flags for the demo]
# (1) patch applies to a pristine worktree, builds, all 26 unit tests pass; (2) demo fails with the patch; (3) demo passes without.
WT=$1; shift; XF="$@"
cd "$WT" || exit 2
S=_seed; OUT=$S/confirm.txt; : > $OUT
git checkout -q -- src 2>/dev/null
git apply --check $S/patch.diff || { echo "patch does not apply" >> $OUT; exit 1; }
# pristine demo
g++ -std=c++17 -O1 -I$WT/src $XF $S/demo.cpp -o /var/tmp/demo_pristine_$$ 2>> $OUT; /var/tmp/demo_pristine_$$ > /var/tmp/demo_p_$$.out 2>&1; RC_P=$?
git apply $S/patch.diff
g++ -std=c++17 -O1 -I$WT/src $XF $S/demo.cpp -o /var/tmp/demo_mut_$$ 2>> $OUT; /var/tmp/demo_mut_$$ > /var/tmp/demo_m_$$.out 2>&1; RC_M=$?
if [ ! -d _build ]; then cmake -S . -B _build -G Ninja -DCMAKE_BUILD_TYPE=RelWithDebInfo -DBUILD_TESTS=ON -DCMAKE_CXX_FLAGS=-Wno-error > _conf.log 2>&1; fi
cmake --build _build -j8 > _build.log 2>&1; RC_B=$?
ctest --test-dir _build -j8 --timeout 900 > _ctest.log 2>&1; RC_T=$?
SUMMARY=$(grep "tests passed" _ctest.log)
echo "demo_pristine_rc=$RC_P demo_mutant_rc=$RC_M build_rc=$RC_B ctest_rc=$RC_T ctest=\"$SUMMARY\"" >> $OUT
tail -2 /var/tmp/demo_p_$$.out | sed 's/^/pristine: /' >> $OUT; tail -2 /var/tmp/demo_m_$$.out | sed 's/^/mutant: /' >> $OUT
rm -f /var/tmp/demo_*_$$ /var/tmp/demo_*_$$.out
cat $OUT
[ $RC_P -eq 0 ] && [ $RC_M -ne 0 ] && [ $RC_B -eq 0 ] && [ $RC_T -eq 0 ]
