// Reusable oracles/assertion groups over a built tree (C06, C07, C16, C17 ...). Harness code.
#pragma once
#include "h_common.hpp"

enum Aid2 { S_NONEMPTY = 100, S_GROUP_HDR, S_LEVEL_SET, S_BLOCKSIZE, S_LEAF_PART_MATCH, S_PART_HDR, S_NBGROUPS, S_CELL_COORD,
            K_ONCE = 120, K_LEAF, K_LEAF_INDEX, K_DATA, K_RHS_ZERO, K_MULTIPOLE_ZERO, K_LOCAL_ZERO, K_COUNT, K_UNCHANGED, K_NBPART,
            Q_CELL = 140, Q_LEAF, Q_CELL_POS, Q_LEAF_POS,
            X_DATA = 150, X_RHS };

static long leafIndexOfP(const Idx& s, long p){
    std::array<long, DIM> c; for(int d = 0; d < DIM; ++d) c[d] = gP.leafCoord(p, d);
    return s.getIndexFromBoxPos(c);
}

// sorted distinct cell indices of a level, from the particles' leaf indices
struct LevelSet { long n; long idx[NPART]; };
static LevelSet levelSet(const long leafIdx[NPART], long level){
    LevelSet r; r.n = 0;
    for(long p = 0; p < NPART; ++p){
        const long c = leafIdx[p] >> (DIM * (HEIGHT - 1 - level));
        long i = 0; while(i < r.n && r.idx[i] < c) ++i;
        if(i < r.n && r.idx[i] == c) continue;
        for(long j = r.n; j > i; --j) r.idx[j] = r.idx[j - 1];
        r.idx[i] = c; ++r.n;
    }
    return r;
}

// C07: the tree is the sorted, partitioned ancestor closure of the occupied leaves
template <class TreeT>
static void checkStructure(const TreeT& tree, const Idx& space, const long leafIdx[NPART], long blockSize, bool oneGroupPerParent){
    bool nonEmpty = true, hdr = true, setOk = true, sizeOk = true, coordOk = true;
    for(long level = 0; level < HEIGHT; ++level){
        const LevelSet ls = levelSet(leafIdx, level);
        const auto& groups = tree.getCellGroupsAtLevel(level);
        long k = 0;
        nonEmpty = nonEmpty && (long)groups.size() >= 1 && tree.getNbCellGroupsAtLevel(level) == (long)groups.size();
        for(const auto& g : groups){
            const long nb = g.getNbCells();
            nonEmpty = nonEmpty && nb >= 1;
            if(nb < 1) continue;
            hdr = hdr && g.getStartingSpacialIndex() == g.getCellSpacialIndex(0) && g.getEndingSpacialIndex() == g.getCellSpacialIndex(nb - 1);
            for(long i = 0; i < nb; ++i, ++k){
                setOk = setOk && k < ls.n && g.getCellSpacialIndex(i) == ls.idx[k < ls.n ? k : 0];
                const auto c = space.getBoxPosFromIndex(g.getCellSpacialIndex(i));
                for(int d = 0; d < DIM; ++d) coordOk = coordOk && g.getCellBoxCoord(i)[d] == c[d];
            }
            if(level == HEIGHT - 1 || !oneGroupPerParent) sizeOk = sizeOk && nb <= blockSize;
        }
        setOk = setOk && k == ls.n;
    }
    irsym_assert(nonEmpty, S_NONEMPTY); irsym_assert(hdr, S_GROUP_HDR); irsym_assert(setOk, S_LEVEL_SET); irsym_assert(sizeOk, S_BLOCKSIZE);
    irsym_assert(coordOk, S_CELL_COORD);
    // leaf cell groups <-> particle groups, one to one, cell by cell
    const auto& lg = tree.getLeafGroups(); const auto& pg = tree.getParticleGroups();
    irsym_assert(lg.size() == pg.size() && tree.getNbParticleGroups() == (long)pg.size(), S_NBGROUPS);
    bool match = true, phdr = true;
    for(size_t i = 0; i < lg.size() && i < pg.size(); ++i){
        match = match && lg[i].getNbCells() == pg[i].getNbLeaves();
        phdr = phdr && pg[i].getStartingSpacialIndex() == lg[i].getStartingSpacialIndex() && pg[i].getEndingSpacialIndex() == lg[i].getEndingSpacialIndex();
        long np = 0;
        for(long c = 0; c < lg[i].getNbCells() && c < pg[i].getNbLeaves(); ++c){
            match = match && lg[i].getCellSpacialIndex(c) == pg[i].getLeafSpacialIndex(c) && pg[i].getNbParticlesInLeaf(c) >= 1;
            for(int d = 0; d < DIM; ++d) match = match && lg[i].getCellBoxCoord(c)[d] == pg[i].getLeafBoxCoord(c)[d];
            np += pg[i].getNbParticlesInLeaf(c);
        }
        phdr = phdr && np == pg[i].getNbParticles();
    }
    irsym_assert(match, S_LEAF_PART_MATCH); irsym_assert(phdr, S_PART_HDR);
}

// C06: every particle once, right leaf, original index, bit-identical data, zero rhs / expansions
template <class TreeT>
static void checkConstruction(TreeT& tree, const Idx& space, bool expectZero){
    long seen[NPART]; for(long p = 0; p < NPART; ++p) seen[p] = 0;
    bool inRange = true, leafOk = true, idxOk = true, dataOk = true, rhsZero = true; long total = 0;
    tree.applyToAllLeaves([&](auto&& hdr, const long* pidx, auto&& data, auto&& rhs){
        std::array<long, DIM> bc; for(int d = 0; d < DIM; ++d) bc[d] = hdr.boxCoord[d];
        idxOk = idxOk && hdr.spaceIndex == space.getIndexFromBoxPos(bc);
        for(long i = 0; i < hdr.nbParticles; ++i, ++total){
            const long p = pidx[i];
            if(!(0 <= p && p < NPART)){ inRange = false; continue; }
            seen[p] += 1;
            for(int d = 0; d < DIM; ++d) leafOk = leafOk && gP.leafCoord(p, d) == hdr.boxCoord[d];
            for(int v = 0; v < DIM + NEXTRA; ++v){
                const DataT expect = static_cast<DataT>(gP.pos[p][v]);
                dataOk = dataOk && std::memcmp(&data[v][i], &expect, sizeof(DataT)) == 0;
            }
            if(expectZero) for(int r = 0; r < NRHS; ++r) rhsZero = rhsZero && rhs[r][i] == 0;
        }
    });
    bool once = inRange; for(long p = 0; p < NPART; ++p) once = once && seen[p] == 1;
    irsym_assert(once, K_ONCE); irsym_assert(total == NPART && tree.getNbParticles() == NPART, K_COUNT);
    irsym_assert(leafOk, K_LEAF); irsym_assert(idxOk, K_LEAF_INDEX); irsym_assert(dataOk, K_DATA);
    if(expectZero){
        irsym_assert(rhsZero, K_RHS_ZERO);
        bool mz = true, lz = true;
        tree.applyToAllCells([&](const long, auto&&, auto&& mOpt, auto&& lOpt){
            if(mOpt) mz = mz && mOpt->get()[0] == 0;
            if(lOpt) lz = lz && lOpt->get()[0] == 0;
        });
        irsym_assert(mz, K_MULTIPOLE_ZERO); irsym_assert(lz, K_LOCAL_ZERO);
    }
}

// C16: tree-level lookup: every index of every level (plus -1 and the upper bound) is found iff it is in the oracle set
template <class TreeT>
static void checkLookup(TreeT& tree, const Idx& space, const long leafIdx[NPART]){
    bool cellOk = true, cellPos = true, leafOk = true, leafPos = true;
    for(long level = 0; level < HEIGHT; ++level){
        const LevelSet ls = levelSet(leafIdx, level);
        const long upper = space.getUpperBound(level);
        for(long q = -1; q <= upper; ++q){
            bool expect = false; for(long i = 0; i < ls.n; ++i) expect = expect || ls.idx[i] == q;
            auto r = tree.findGroupWithCell(level, q);
            cellOk = cellOk && (bool(r) == expect);
            if(r) cellPos = cellPos && r->second >= 0 && r->second < r->first.get().getNbCells() && r->first.get().getCellSpacialIndex(r->second) == q;
            if(level == HEIGHT - 1){
                auto l = tree.findGroupWithLeaf(q);
                leafOk = leafOk && (bool(l) == expect);
                if(l) leafPos = leafPos && l->second >= 0 && l->second < l->first.get().getNbLeaves() && l->first.get().getLeafSpacialIndex(l->second) == q;
            }
        }
    }
    irsym_assert(cellOk, Q_CELL); irsym_assert(cellPos, Q_CELL_POS); irsym_assert(leafOk, Q_LEAF); irsym_assert(leafPos, Q_LEAF_POS);
}

// C16 on deep trees: the query set is every existing cell, its two index neighbours, -1, 0 and the upper bound of the level
template <class TreeT>
static void checkLookupSparse(TreeT& tree, const Idx& space, const long leafIdx[NPART]){
    bool cellOk = true, cellPos = true, leafOk = true;
    for(long level = 0; level < HEIGHT; ++level){
        const LevelSet ls = levelSet(leafIdx, level);
        const long upper = space.getUpperBound(level);
        long qs[3 * NPART + 3]; long nq = 0;
        for(long i = 0; i < ls.n; ++i){ qs[nq++] = ls.idx[i]; qs[nq++] = ls.idx[i] - 1; qs[nq++] = ls.idx[i] + 1; }
        qs[nq++] = -1; qs[nq++] = 0; qs[nq++] = upper;
        for(long k = 0; k < nq; ++k){
            const long q = qs[k];
            bool expect = false; for(long i = 0; i < ls.n; ++i) expect = expect || ls.idx[i] == q;
            auto r = tree.findGroupWithCell(level, q);
            cellOk = cellOk && (bool(r) == expect);
            if(r) cellPos = cellPos && r->first.get().getCellSpacialIndex(r->second) == q;
            if(level == HEIGHT - 1){
                auto l = tree.findGroupWithLeaf(q);
                leafOk = leafOk && (bool(l) == expect) && (!l || l->first.get().getLeafSpacialIndex(l->second) == q);
            }
        }
    }
    irsym_assert(cellOk, Q_CELL); irsym_assert(cellPos, Q_CELL_POS); irsym_assert(leafOk, Q_LEAF);
}

// C17: bulk export under the original index
template <class TreeT>
static void checkExport(TreeT& tree, const U expectRhs[NPART][NRHS + 1], bool checkRhs){
    auto data = tree.getAllParticlesData();
    bool dok = true;
    for(long p = 0; p < NPART; ++p) for(int v = 0; v < DIM + NEXTRA; ++v){
        const Real expect = static_cast<Real>(static_cast<DataT>(gP.pos[p][v]));      // stored as DataT (converted once from the container type), exported as RealType
        dok = dok && std::memcmp(&data[p][v], &expect, sizeof(Real)) == 0;
    }
    irsym_assert(dok, X_DATA);
    if(checkRhs){
        auto rhs = tree.getAllParticlesRhs();
        bool rok = true;
        for(long p = 0; p < NPART; ++p) for(int r = 0; r < NRHS; ++r) rok = rok && rhs[p][r] == expectRhs[p][r];
        irsym_assert(rok, X_RHS);
    }
}
