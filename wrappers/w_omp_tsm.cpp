// C03 / C09: OpenMP target/source executor under the mock runtime, compared with the sequential target/source executor
#include "w_tsm.cpp"
#include "algorithms/openmp/tbfopenmpalgorithmtsm.hpp"
using OAlgoT = TbfOpenmpAlgorithmTsm<Real, KernelT, Idx>;
extern "C" void irsym_omp_mode(long mode);
enum AidOT { OT_RHS = 620, OT_LOCAL, OT_MULT };
static U gRefRhs[NPART][NRHS + 1]; static U gRefL[MaxCells]; static U gRefM[MaxCells];
ENTRY(h_c03_tsm){
    forkCfg(a0, a1, a3);
    const Cfg cfg = makeCfg();
    for(long p = 0; p < NPART; ++p){
        for(int d = 0; d < DIM; ++d) gP.k[p][d] = chooseK();
        if(p > 0 && p != NS) irsym_assume(keyOf(gP.k[p - 1]) <= keyOf(gP.k[p]));
        for(int d = 0; d < DIM; ++d) gP.pos[p][d] = cfg.getBoxCorner()[d] + Real(gP.k[p][d]) * (cfg.getLeafWidths()[d] / Real(2));
        gP.w[p] = irsym_symbolic_u64();
    }
    PosVec src(NS), tgt(NT);
    for(long p = 0; p < NS; ++p) src[p] = gP.pos[p];
    for(long p = 0; p < NT; ++p) tgt[p] = gP.pos[NS + p];
    const long upper = a3 < 0 ? TbfDefaultLastLevel : a3;
    gTK = TFlags();
    {
        TreeTsm ref(cfg, src, tgt, a0, a1 != 0);
        AlgoT algo(cfg, upper); algo.execute(ref);
        ref.applyToAllLeavesTarget([&](auto&& hdr, const long* pidx, auto&&, auto&& rhs){ for(long i = 0; i < hdr.nbParticles; ++i) for(int r = 0; r < NRHS; ++r) gRefRhs[pidx[i]][r] = rhs[r][i]; });
        long k = 0; ref.applyToAllCellsTarget([&](const long, auto&&, auto&&, auto&& lOpt){ gRefL[k++] = lOpt->get()[0]; });
        k = 0; ref.applyToAllCellsSource([&](const long, auto&&, auto&& mOpt, auto&&){ gRefM[k++] = mOpt->get()[0]; });
    }
    TreeTsm tree(cfg, src, tgt, a0, a1 != 0);
    {
        OAlgoT algo(cfg, upper);
        irsym_omp_mode(1);
        algo.execute(tree);
        irsym_omp_mode(0);
    }
    bool rok = true, lok = true, mok = true;
    tree.applyToAllLeavesTarget([&](auto&& hdr, const long* pidx, auto&&, auto&& rhs){ for(long i = 0; i < hdr.nbParticles; ++i) for(int r = 0; r < NRHS; ++r){ rok = rok & (rhs[r][i] == gRefRhs[pidx[i]][r]); irsym_observe(rhs[r][i]); } });
    long k = 0; tree.applyToAllCellsTarget([&](const long, auto&&, auto&&, auto&& lOpt){ lok = lok & (lOpt->get()[0] == gRefL[k++]); });
    k = 0; tree.applyToAllCellsSource([&](const long, auto&&, auto&& mOpt, auto&&){ mok = mok & (mOpt->get()[0] == gRefM[k++]); });
    irsym_assert(rok, OT_RHS); irsym_assert(lok, OT_LOCAL); irsym_assert(mok, OT_MULT);
}
