// C11 list builders (E2): per-index and per-group interaction / neighbour lists against the set-theoretic definition.
// DIM, ORD (0 Morton, 1 periodic). Coordinates of the cells are forked (irsym_choose) over the whole grid of the level.
#define NPART 4
#include "h_common.hpp"
enum AidL { L_INTER = 700, L_NEIGH, L_NEIGH_UPPER, L_GRP_INTER, L_GRP_INTER_SPLIT, L_GRP_NEIGH, L_GRP_NEIGH_SPLIT, L_GRP_SELF, L_CODES };
static constexpr bool Periodic = (ORD == 1);

// oracle multisets are pushed into log run 1 with op = kind; library output into run 0
enum Kind { K_INTER = 1, K_NEIGH = 2 };
static long p3(){ long r = 1; for(int d = 0; d < DIM; ++d) r *= 3; return r; }

// definition of the interaction list of cell p at `level`: children of the parent's neighbours that are not adjacent to p
template <class F> static void forInteractions(const Idx& s, const std::array<long, DIM>& p, long level, F&& f){
    if((!Periodic && level < 2) || (Periodic && level < 1)) return;
    const long lim = 1L << level;
    std::array<long, DIM> rel; for(int d = 0; d < DIM; ++d) rel[d] = -3;
    while(true){
        bool ok = true; long maxd = 0;
        std::array<long, DIM> c;
        for(int d = 0; d < DIM; ++d){
            const long u = p[d] + rel[d];                       // unwrapped coordinate
            const long pu = u >> 1, pp = p[d] >> 1;             // floor division: parents in unwrapped coordinates
            ok = ok && (pu - pp >= -1 && pu - pp <= 1);
            if(!Periodic) ok = ok && 0 <= u && u < lim;
            c[d] = ((u % lim) + lim) % lim;
            const long a = rel[d] < 0 ? -rel[d] : rel[d]; if(a > maxd) maxd = a;
        }
        if(ok && maxd >= 2){
            long code = 0; for(int d = 0; d < DIM; ++d) code = code * 7 + (rel[d] + 3);
            f(s.getIndexFromBoxPos(c), code);
        }
        int d = DIM - 1; while(d >= 0 && ++rel[d] > 3){ rel[d] = -3; --d; }
        if(d < 0) break;
    }
}
template <class F> static void forNeighbors(const Idx& s, const std::array<long, DIM>& p, long level, bool upper, F&& f){
    const long lim = 1L << level;
    std::array<long, DIM> rel; for(int d = 0; d < DIM; ++d) rel[d] = -1;
    while(true){
        bool ok = true, self = true; std::array<long, DIM> c; long code = 0;
        for(int d = 0; d < DIM; ++d){
            const long u = p[d] + rel[d];
            if(!Periodic) ok = ok && 0 <= u && u < lim;
            c[d] = ((u % lim) + lim) % lim; self = self && rel[d] == 0; code = code * 3 + (rel[d] + 1);
        }
        if(ok && !self && (!upper || code > p3() / 2)) f(s.getIndexFromBoxPos(c), code);
        int d = DIM - 1; while(d >= 0 && ++rel[d] > 1){ rel[d] = -1; --d; }
        if(d < 0) break;
    }
}

static std::array<long, DIM> chooseCell(long level){
    std::array<long, DIM> p; for(int d = 0; d < DIM; ++d){ p[d] = irsym_choose(1L << level); irsym_note(10 + d, p[d]); }
    return p;
}

// a0 = level: per-index builders for every cell of the level
ENTRY(h_c11_index){
    const long level = a0;
    const Cfg cfg = makeCfg(); const Idx s(cfg);
    const auto p = chooseCell(level);
    const long idx = s.getIndexFromBoxPos(p);
    { const auto v = s.getInteractionListForIndex(idx, level);
      for(const auto x : v) irsym_log(0, K_INTER, level, idx, x, 0);
      forInteractions(s, p, level, [&](long src, long){ irsym_log(1, K_INTER, level, idx, src, 0); });
      irsym_assert(irsym_logs_equal(0, 1) != 0, L_INTER); irsym_observe(v.size()); }
    irsym_log_clear(0); irsym_log_clear(1);
    { const auto v = s.getNeighborListForIndex(idx, level, false);
      for(const auto x : v) irsym_log(0, K_NEIGH, level, idx, x, 0);
      forNeighbors(s, p, level, false, [&](long src, long){ irsym_log(1, K_NEIGH, level, idx, src, 0); });
      irsym_assert(irsym_logs_equal(0, 1) != 0, L_NEIGH); irsym_observe(v.size()); }
    irsym_log_clear(0); irsym_log_clear(1);
    { const auto v = s.getNeighborListForIndex(idx, level, true);
      for(const auto x : v) irsym_log(0, K_NEIGH, level, idx, x, 1);
      forNeighbors(s, p, level, true, [&](long src, long){ irsym_log(1, K_NEIGH, level, idx, src, 1); });
      irsym_assert(irsym_logs_equal(0, 1) != 0, L_NEIGH_UPPER); }
}

// a0 = level, a1 = number of cells in the group (1..3), a2 = testSelfInclusion forked when < 0: per-group builders on real containers
using CellGroup = TbfCellsContainer<Real, MCell, LCell, Idx>;
using LeafGroup = TbfParticlesContainer<Real, DataT, NData, U, NRHS, Idx>;
ENTRY(h_c11_group){
    const long level = a0; const long ncells = a1;
    const Cfg cfg = makeCfg(); const Idx s(cfg);
    // ncells distinct cells in increasing index order (forked over every combination)
    std::vector<long> idxs; std::array<long, DIM> cells[4];
    const long upperB = s.getUpperBound(level);
    long prev = -1;
    for(long k = 0; k < ncells; ++k){
        const long remaining = upperB - (prev + 1) - (ncells - 1 - k);
        irsym_assume(remaining >= 1);
        const long i = prev + 1 + irsym_choose(remaining);
        idxs.push_back(i); cells[k] = s.getBoxPosFromIndex(i); prev = i; irsym_note(20 + k, i);
    }
    const bool testSelf = irsym_choose(2) != 0;
    {
        CellGroup g(idxs, s);
        const auto lists = s.getInteractionListForBlock(g, level, testSelf);
        bool split = true, codes = true;
        for(int part = 0; part < 2; ++part) for(const auto& it : (part == 0 ? lists.first : lists.second)){
            irsym_log(0, K_INTER, it.globalTargetPos, it.indexTarget, it.indexSrc, it.arrayIndexSrc);
            const bool inRange = g.getStartingSpacialIndex() <= it.indexSrc && it.indexSrc <= g.getEndingSpacialIndex();
            split = split && ((part == 0) == inRange);
            if(part == 0 && testSelf){ bool present = false; for(long k = 0; k < ncells; ++k) present = present || idxs[k] == it.indexSrc; split = split && present; }
            codes = codes && 0 <= it.globalTargetPos && it.globalTargetPos < ncells && idxs[it.globalTargetPos] == it.indexTarget;
        }
        for(long k = 0; k < ncells; ++k) forInteractions(s, cells[k], level, [&](long src, long code){
            const bool inRange = idxs[0] <= src && src <= idxs[ncells - 1];
            bool present = false; for(long j = 0; j < ncells; ++j) present = present || idxs[j] == src;
            if(!inRange || !testSelf || present) irsym_log(1, K_INTER, k, idxs[k], src, code);
        });
        irsym_assert(irsym_logs_equal(0, 1) != 0, L_GRP_INTER); irsym_assert(split, L_GRP_INTER_SPLIT); irsym_assert(codes, L_CODES);
        irsym_observe(lists.first.size()); irsym_observe(lists.second.size());
    }
    irsym_log_clear(0); irsym_log_clear(1);
    {
        // a particle group with one particle per leaf, built through the sorter (the public way to obtain one)
        std::vector<std::array<Real, NData>> pos(ncells);
        for(long k = 0; k < ncells; ++k) for(int d = 0; d < DIM; ++d) pos[k][d] = cfg.getBoxCorner()[d] + (Real(cells[k][d]) + Real(0.5)) * (cfg.getBoxWidths()[d] / Real(1L << level));
        const bool upper = irsym_choose(2) != 0;
        // the leaf level of this configuration must be `level`: the harness is instantiated with HEIGHT = level + 1
        TbfParticleSorter<Real, Idx> sorter(s, pos);
        const auto props = sorter.splitInGroups(ncells);
        irsym_assert((long)props.size() == 1, L_GRP_SELF);
        LeafGroup g(props[0], pos, s);
        const auto lists = s.getNeighborListForBlock(g, level, upper, testSelf);
        bool split = true, codes = true;
        for(int part = 0; part < 2; ++part) for(const auto& it : (part == 0 ? lists.first : lists.second)){
            irsym_log(0, K_NEIGH, it.globalTargetPos, it.indexTarget, it.indexSrc, it.arrayIndexSrc);
            const bool inRange = g.getStartingSpacialIndex() <= it.indexSrc && it.indexSrc <= g.getEndingSpacialIndex();
            split = split && ((part == 0) == inRange);
            codes = codes && 0 <= it.globalTargetPos && it.globalTargetPos < ncells && idxs[it.globalTargetPos] == it.indexTarget;
        }
        for(long k = 0; k < ncells; ++k) forNeighbors(s, cells[k], level, upper, [&](long src, long code){
            const bool inRange = idxs[0] <= src && src <= idxs[ncells - 1];
            bool present = false; for(long j = 0; j < ncells; ++j) present = present || idxs[j] == src;
            if(!inRange || !testSelf || present) irsym_log(1, K_NEIGH, k, idxs[k], src, code);
        });
        irsym_assert(irsym_logs_equal(0, 1) != 0, L_GRP_NEIGH); irsym_assert(split, L_GRP_NEIGH_SPLIT); irsym_assert(codes, L_CODES);
        const auto self = s.getSelfListForBlock(g);
        bool sok = (long)self.size() == ncells;
        for(long k = 0; k < (long)self.size() && sok; ++k) sok = self[k].indexTarget == idxs[k] && self[k].indexSrc == idxs[k] && self[k].globalTargetPos == k && self[k].arrayIndexSrc == p3() / 2;
        irsym_assert(sok, L_GRP_SELF);
        irsym_observe(lists.first.size()); irsym_observe(lists.second.size());
    }
}
