// native side of the C20 replay: runs h_p2p on the given double inputs and prints the outputs with 17 digits
#include <cstdio>
#include <cstdlib>
#include <vector>
static std::vector<double> gIn; static size_t gI = 0;
extern "C" void h_p2p(long, long, long, long, long, long);
extern "C" double irsym_symbolic_real(void){ return gI < gIn.size() ? gIn[gI++] : 0.0; }
extern "C" void irsym_output_real(long idx, double v){ printf("out %ld %.17g\n", idx, v); }
int main(int argc, char** argv){
    long a0 = atol(argv[1]), a1 = atol(argv[2]), a2 = atol(argv[3]);
    for(int i = 4; i < argc; ++i) gIn.push_back(strtod(argv[i], nullptr));
    h_p2p(a0, a1, a2, 0, 0, 0);
    return 0;
}
