// C11 leaf index algebra: thin extern "C" wrappers over the public index API.
// DIM, ORD (0 Morton, 1 periodic Morton, 2 Hilbert), HEIGHT (tree height of the configuration)
#include "tbfglobal.hpp"
#include "utils/tbfutils.hpp"
#include "spacial/tbfspacialconfiguration.hpp"
#include "spacial/tbfmortonspaceindex.hpp"
#include "spacial/tbfhilbertspaceindex.hpp"
#ifndef DIM
#define DIM 3
#endif
#ifndef ORD
#define ORD 0
#endif
#ifndef HEIGHT
#define HEIGHT 5
#endif
using Real = double;
using Cfg = TbfSpacialConfiguration<Real, DIM>;
#if ORD == 0
using Idx = TbfMortonSpaceIndex<DIM, Cfg, false>;
#elif ORD == 1
using Idx = TbfMortonSpaceIndex<DIM, Cfg, true>;
#else
using Idx = TbfHilbertSpaceIndex<DIM, Cfg, false>;
#endif
static Idx make(){
    std::array<Real,DIM> w, c;
    for(int i=0;i<DIM;++i){ w[i]=1; c[i]=0.5; }
    return Idx(Cfg(HEIGHT, w, c));
}
#define API extern "C" __attribute__((noinline))
API long w_idx_from_pos(const long* pos){
    Idx s = make();
    std::array<long,DIM> p; for(int i=0;i<DIM;++i) p[i]=pos[i];
    return s.getIndexFromBoxPos(p);
}
API void w_pos_from_idx(long idx, long* out){
    Idx s = make();
    auto p = s.getBoxPosFromIndex(idx);
    for(int i=0;i<DIM;++i) out[i]=p[i];
}
API long w_parent(long idx){ return make().getParentIndex(idx); }
API long w_childpos(long idx){ return make().childPositionFromParent(idx); }
API long w_child(long parent, long c){ return make().getChildIndexFromParent(parent, c); }
API long w_upper(long level){ return make().getUpperBound(level); }
#if ORD != 2
API long w_boxlimit(long level){ return make().getBoxLimit(level); }
#endif
API void w_rel_from_inter(long code, long* out){ auto p = Idx::getRelativePosFromInteractionIndex(code); for(int i=0;i<DIM;++i) out[i]=p[i]; }
API void w_rel_from_neigh(long code, long* out){ auto p = Idx::getRelativePosFromNeighborIndex(code); for(int i=0;i<DIM;++i) out[i]=p[i]; }
API long w_inter_from_rel(const long* pos){ std::array<long,DIM> p; for(int i=0;i<DIM;++i) p[i]=pos[i]; return Idx::getInteractionIndexFromRelativePos(p); }
API long w_neigh_from_rel(const long* pos){ std::array<long,DIM> p; for(int i=0;i<DIM;++i) p[i]=pos[i]; return Idx::getNeighborIndexFromRelativePos(p); }
API long w_nb_children(){ return Idx::getNbChildrenPerCell(); }
API long w_nb_inter(){ return Idx::getNbInteractionsPerCell(); }
API long w_nb_neigh(){ return Idx::getNbNeighborsPerLeaf(); }
