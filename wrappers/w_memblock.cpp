// C14 (allocation + trailer): real TbfMemoryBlock objects with forked item counts; E2 harness.
#include <array>
#include <cstring>
#include <utility>
#include "tbfglobal.hpp"
#include "utils/tbfutils.hpp"
#include "containers/tbfmemoryblock.hpp"
#include "containers/tbfmemoryscalar.hpp"
#include "containers/tbfmemoryvector.hpp"
#include "containers/tbfmemorymultirvector.hpp"
#include "containers/tbfmemorymultivvector.hpp"
extern "C" { long irsym_choose(long n); unsigned long irsym_symbolic_u64(void); void irsym_assert(bool c, long id); void irsym_assume(bool c);
             void irsym_observe(unsigned long v); void irsym_note(long tag, long v); }
#define ENTRY(name) extern "C" __attribute__((noinline)) void name(long a0, long a1, long a2, long a3, long a4, long a5)
struct H24 { long a, b, c; };
struct C32 { long idx; long box[3]; };
struct B1 { unsigned char x; };
struct Big { long v[512]; };       // 4096 bytes
#ifndef TUPLE
#define TUPLE 0
#endif
#if TUPLE == 0      // the particle-group layout
using Blk = TbfMemoryBlock<TbfMemoryScalar<H24>, TbfMemoryVector<C32>, TbfMemoryVector<long>, TbfMemoryMultiRVector<double, 3>>;
constexpr long NB = 4; constexpr long ES[4] = {24, 32, 8, 8}; constexpr long ROWS[4] = {1, 1, 1, 3}; constexpr int KIND[4] = {0, 1, 1, 2};
#elif TUPLE == 1    // the cell-group layout
using Blk = TbfMemoryBlock<TbfMemoryScalar<H24>, TbfMemoryVector<C32>>;
constexpr long NB = 2; constexpr long ES[2] = {24, 32}; constexpr long ROWS[2] = {1, 1}; constexpr int KIND[2] = {0, 1};
#elif TUPLE == 2    // synthetic: one-byte elements, multi-column kind, float rows
using Blk = TbfMemoryBlock<TbfMemoryVector<B1>, TbfMemoryMultiVVector<float, 5>, TbfMemoryMultiRVector<float, 4>>;
constexpr long NB = 3; constexpr long ES[3] = {1, 4, 4}; constexpr long ROWS[3] = {1, 5, 4}; constexpr int KIND[3] = {1, 3, 2};
#else               // synthetic: a single block of 4096-byte elements
using Blk = TbfMemoryBlock<TbfMemoryVector<Big>>;
constexpr long NB = 1; constexpr long ES[1] = {4096}; constexpr long ROWS[1] = {1}; constexpr int KIND[1] = {1};
#endif
enum Aid { M_TOTAL = 300, M_OFFSETS, M_DISJOINT, M_TRAILER, M_VIEW_SAME, M_ZERO, M_REUSE_VIEW, M_REUSE_KEEP, M_MOVE, M_MOVED_FROM, M_ELEM_INSIDE, M_COUNTS };
static long r64(long x){ return ((x + 63) / 64) * 64; }
static long blockBytes(int b, long n){
    if(KIND[b] == 0) return r64(ES[b]);
    if(KIND[b] == 1) return r64(ES[b] * n);
    if(KIND[b] == 2) return ROWS[b] * r64(ES[b] * n);
    return n * r64(ES[b] * ROWS[b]);
}
// boundary item counts: around 64 / 128 / 4096 bytes of payload, and a large one
static long chooseCount(int b){
    if(KIND[b] == 0) return 1;
    const long es = ES[b];
    const long k64 = (64 + es - 1) / es, k128 = (128 + es - 1) / es, k4096 = (4096 + es - 1) / es;
    const long cand[12] = {0, 1, 2, k64 - 1 > 0 ? k64 - 1 : 3, k64, k64 + 1, k128 - 1, k128, k128 + 1, k4096, k4096 + 1, 10000 / (es > 64 ? 64 : 1)};
    return cand[irsym_choose(12)];
}
template <int K, class V> static unsigned char* firstAddr(V&& v){
    if constexpr (K == 0) return reinterpret_cast<unsigned char*>(&v.getItem());
    else if constexpr (K == 1) return reinterpret_cast<unsigned char*>(&v.getItem(0));
    else return reinterpret_cast<unsigned char*>(&v.getItem(0, 0));
}
// address of the first element of each block (or of where it would be)
template <long NBv = NB, class BT, class F> static void forBlocks(BT& b, F&& f){
    if constexpr (NBv >= 1) f(0, firstAddr<KIND[0]>(b.template getViewerForBlock<0>()));
    if constexpr (NBv >= 2) f(1, firstAddr<KIND[NBv >= 2 ? 1 : 0]>(b.template getViewerForBlock<(NBv >= 2 ? 1 : 0)>()));
    if constexpr (NBv >= 3) f(2, firstAddr<KIND[NBv >= 3 ? 2 : 0]>(b.template getViewerForBlock<(NBv >= 3 ? 2 : 0)>()));
    if constexpr (NBv >= 4) f(3, firstAddr<KIND[NBv >= 4 ? 3 : 0]>(b.template getViewerForBlock<(NBv >= 4 ? 3 : 0)>()));
}

static void checkLayout(Blk& b, const std::array<long, NB>& n, long aidBase){
    unsigned char* base = b.getPtr();
    const long total = b.getAllocatedMemorySizeInByte();
    long off[NB]; long cum = 0; bool offOk = true;
    forBlocks(b, [&](int k, unsigned char* p){ off[k] = p - base; });
    for(int k = 0; k < NB; ++k){ offOk = offOk && off[k] == cum && off[k] % 64 == 0; cum += blockBytes(k, n[k]); }
    irsym_assert(offOk, M_OFFSETS + aidBase);
    irsym_assert(cum + 16 * NB <= total, M_TOTAL + aidBase);           // payload, then the trailer (offsets, counts) at the very end
    const long* trailer = reinterpret_cast<const long*>(base + total - 16 * NB);
    bool tr = true;
    for(int k = 0; k < NB; ++k) tr = tr && trailer[k] == off[k] && trailer[NB + k] == n[k];
    irsym_assert(tr, M_TRAILER + aidBase);
}

// a0 unused. One path = one tuple of item counts (boundary values) [+ a smaller second tuple]
ENTRY(h_memblock){
    std::array<long, NB> n, n2;
    for(int k = 0; k < NB; ++k){ n[k] = chooseCount(k); irsym_note(k, n[k]); }
    Blk b;
    irsym_assert(b.isEmpty() && b.getPtr() == nullptr && b.getAllocatedMemorySizeInByte() == 0, M_MOVED_FROM);
    b.resetBlocksFromSizes(n);
    checkLayout(b, n, 0);
    // every byte of the payload reads as zero
    { const unsigned char* base = b.getPtr(); long pay = 0; for(int k = 0; k < NB; ++k) pay += blockBytes(k, n[k]);
      bool z = true; const long step = pay > 4096 ? 61 : 1; for(long i = 0; i < pay; i += step) z = z && base[i] == 0; if(pay) z = z && base[pay - 1] == 0;
      irsym_assert(z, M_ZERO); }
    // a view built by the raw-memory constructor on a byte copy derives the same block offsets and counts
    const long total = b.getAllocatedMemorySizeInByte();
    {
        unsigned char* cp = new unsigned char[total];
        std::memcpy(cp, b.getPtr(), total);
        Blk v(cp, total, true);
        long offB[NB], offV[NB];
        forBlocks(b, [&](int k, unsigned char* p){ offB[k] = p - b.getPtr(); });
        forBlocks(v, [&](int k, unsigned char* p){ offV[k] = p - cp; });
        bool same = !v.isEmpty(); for(int k = 0; k < NB; ++k) same = same && offB[k] == offV[k];
        irsym_assert(same, M_VIEW_SAME);
        delete[] cp;
    }
    if(a1){
        // grow one block by the smallest step that changes its layout (one more 64-byte line per row): the buffer of the first layout is exactly
        // payload + trailer, so there is no room for it and the block must move to a larger buffer (the memory model decides every access)
        {
            const long kb = irsym_choose(NB);
            if(KIND[kb] != 0){
                std::array<long, NB> n3 = n;
                do { ++n3[kb]; } while(blockBytes(int(kb), n3[kb]) == blockBytes(int(kb), n[kb]));
                b.resetBlocksFromSizes(n3);
                checkLayout(b, n3, 0);
                const unsigned char* base = b.getPtr(); long pay = 0; for(int k = 0; k < NB; ++k) pay += blockBytes(k, n3[k]);
                bool z = true; const long step = pay > 4096 ? 61 : 1; for(long i = 0; i < pay; i += step) z = z && base[i] == 0; if(pay) z = z && base[pay - 1] == 0;
                irsym_assert(z, M_ZERO);
                n = n3;
            }
        }
        // shrink and reuse: smaller counts keep the buffer; the published size must still describe where the trailer is
        unsigned char* before = b.getPtr();
        // dirty every payload byte first: a block that is re-laid-out in place must start from zero again
        { long pay = 0; for(int k = 0; k < NB; ++k) pay += blockBytes(k, n[k]); std::memset(before, 0xA5, pay); }
        for(int k = 0; k < NB; ++k){ n2[k] = KIND[k] == 0 ? 1 : (n[k] > 0 ? irsym_choose(2) ? n[k] / 2 : 0 : 0); }
        b.resetBlocksFromSizes(n2);
        irsym_assert(b.getPtr() == before, M_REUSE_KEEP);
        checkLayout(b, n2, 0);
        { const unsigned char* base = b.getPtr(); long pay = 0; for(int k = 0; k < NB; ++k) pay += blockBytes(k, n2[k]);
          bool z = true; const long step = pay > 4096 ? 61 : 1; for(long i = 0; i < pay; i += step) z = z && base[i] == 0; if(pay) z = z && base[pay - 1] == 0;
          irsym_assert(z, M_ZERO); }
        const long total2 = b.getAllocatedMemorySizeInByte();
        unsigned char* cp = new unsigned char[total2];
        std::memcpy(cp, b.getPtr(), total2);
        Blk v(cp, total2, true);
        long offB[NB], offV[NB];
        forBlocks(b, [&](int k, unsigned char* p){ offB[k] = p - b.getPtr(); });
        forBlocks(v, [&](int k, unsigned char* p){ offV[k] = p - cp; });
        bool same = true; for(int k = 0; k < NB; ++k) same = same && offB[k] == offV[k];
        const long* trailer = reinterpret_cast<const long*>(cp + total2 - 16 * NB);
        for(int k = 0; k < NB; ++k) same = same && trailer[NB + k] == n2[k];
        irsym_assert(same, M_REUSE_VIEW);
        delete[] cp;
        // grow again beyond the buffer: reallocates, layout still right
        for(int k = 0; k < NB; ++k) n2[k] = KIND[k] == 0 ? 1 : n[k] + 3;
        b.resetBlocksFromSizes(n2);
        checkLayout(b, n2, 0);
        n = n2;
    }
    // move construction / assignment transfer everything and null the source; destructors free exactly once (leak / double free census)
    unsigned char* p0 = b.getPtr(); const long t0 = b.getAllocatedMemorySizeInByte();
    Blk m(std::move(b));
    irsym_assert(m.getPtr() == p0 && m.getAllocatedMemorySizeInByte() == t0 && !m.isEmpty(), M_MOVE);
    irsym_assert(b.getPtr() == nullptr && b.isEmpty() && b.getAllocatedMemorySizeInByte() == 0, M_MOVED_FROM);
    checkLayout(m, n, 0);
    Blk a; a.resetBlocksFromSizes(n);
    a = std::move(m);
    irsym_assert(a.getPtr() == p0 && m.getPtr() == nullptr && m.isEmpty(), M_MOVE);
    checkLayout(a, n, 0);
    irsym_observe(t0);
}
