// C09 (+ C02/C07/C16 on source/target trees): TbfTreeTsm + TbfAlgorithmTsm. Harness code.
// NS sources and NT targets with independent positions; NPART = NS + NT (particles 0..NS-1 are sources)
#ifndef NS
#define NS 2
#endif
#ifndef NT
#define NT 2
#endif
#define NPART (NS + NT)
#include "h_common.hpp"
#include "h_checks.hpp"

using TreeTsm = TbfTreeTsm<Real, DataT, NData, U, NRHS, MCell, LCell, Idx>;
using PosVec = std::vector<std::array<Real, NData>>;

enum AidT { Y_RHS = 400, Y_SEEN, Y_MULTIPOLE, Y_LOCAL, Y_NO_OTHER_OP, Y_SRC_UNTOUCHED, Y_SRC_HAS_NO_LOCAL, Y_TGT_HAS_NO_MULTIPOLE,
            R_RHS_TWICE_T = 410,
            YG_P2M = 420, YG_M2M, YG_M2L_TGT, YG_M2L_SRC, YG_M2L_OFF, YG_L2L, YG_L2P, YG_P2P_SRC, YG_P2P_TGT, YG_P2P_OFF, YG_N, YG_DATA };

// registries of the two trees
static Registry gRS, gRT;
struct TFlags { bool geom = false; bool periodic = false; };
static TFlags gTK;

template <class RealType_T, class SpaceIndexType_T>
class TKernel {
public:
    using SpacialConfiguration = TbfSpacialConfiguration<RealType_T, SpaceIndexType_T::Dim>;
    KernelGeom kg;
    explicit TKernel(const SpacialConfiguration& c){ for(int d = 0; d < DIM; ++d) kg.bw[d] = c.getBoxWidths()[d]; kg.height = c.getTreeHeight(); }
    TKernel(const TKernel&) = default;

    template <class Sym, class PV>
    static void checkLeaf(const Registry& reg, long base, long count, const Sym& hdr, const long idx[], const PV& data, long n, long aid){
        const LeafRec* lr = reg.leafByPidx(idx);
        bool ok = lr != nullptr && lr->idx == hdr.spaceIndex && lr->nb == n && n >= 1;
        bool same = true;
        for(long i = 0; i < n && ok; ++i){
            ok = ok && 0 <= idx[i] && idx[i] < count;
            if(!ok) break;
            const long p = base + idx[i];
            for(int d = 0; d < DIM; ++d) ok = ok && gP.leafCoord(p, d) == hdr.boxCoord[d];
            for(int v = 0; v < DIM + NEXTRA; ++v){ const DataT e = static_cast<DataT>(gP.pos[p][v]); same = same && std::memcmp(&data[v][i], &e, sizeof(DataT)) == 0; }
        }
        irsym_assert(ok, aid); irsym_assert(same, YG_DATA);
    }

    template <class Sym, class PC, class LC>
    void P2M(const Sym& hdr, const long idx[], const PC& data, const long n, LC& leaf) const {
        if(gTK.geom){
            const CellRec* c = gRS.byM(&leaf);
            irsym_assert(c != nullptr && c->level == HEIGHT - 1 && c->idx == hdr.spaceIndex, YG_P2M);
            checkLeaf(gRS, 0, NS, hdr, idx, data, n, YG_P2M);
        }
        for(long i = 0; i < n; ++i) leaf[0] += gP.w[idx[i]];
    }
    template <class Sym, class CC, class C>
    void M2M(const Sym& hdr, const long level, const CC& low, C& up, const long pos[], const long n) const {
        if(gTK.geom && gTK.periodic && gRS.byM(&up) == nullptr){ virtualGeom(kg, level); virtualM2M(gRS, level, low, up, pos, n); }
        else if(gTK.geom){
            const CellRec* p = gRS.byM(&up);
            bool ok = n >= 1 && p != nullptr && p->level == level && p->idx == hdr.spaceIndex;
            for(long i = 0; i < n && ok; ++i){
                const CellRec* c = gRS.byM(&low[i].get());
                ok = ok && c != nullptr && c->level == level + 1 && (c->idx >> DIM) == p->idx && pos[i] == (c->idx & ((1L << DIM) - 1));
                if(ok) for(int d = 0; d < DIM; ++d) ok = ok && c->coord[d] == 2 * p->coord[d] + ((pos[i] >> (DIM - 1 - d)) & 1);
            }
            irsym_assert(ok, YG_M2M);
        }
        for(long i = 0; i < n; ++i) up[0] += low[i].get()[0];
    }
    template <class Sym, class CC, class C>
    void M2L(const Sym& hdr, const long level, const CC& src, const long pos[], const long n, C& tgt) const {
        if(gTK.geom && gTK.periodic && gRT.byL(&tgt) == nullptr){ virtualGeom(kg, level); virtualM2L(level, src, pos, n, tgt); }
        else if(gTK.geom){
            const CellRec* t = gRT.byL(&tgt);
            irsym_assert(n >= 1, YG_N);
            irsym_assert(t != nullptr && t->level == level && t->idx == hdr.spaceIndex, YG_M2L_TGT);
            bool srcok = true, off = true;
            for(long i = 0; i < n && t != nullptr; ++i){
                const CellRec* s = gRS.byM(&src[i].get());
                srcok = srcok && s != nullptr && s->level == level;
                if(s == nullptr) break;
                const auto rel = Idx::getRelativePosFromInteractionIndex(pos[i]);
                long maxd = 0;
                for(int d = 0; d < DIM; ++d){ const long lim = 1L << level;
                    if(gTK.periodic) off = off && wrapDelta(s->coord[d] - t->coord[d] - rel[d], lim) == 0; else off = off && (s->coord[d] - t->coord[d]) == rel[d];
                    const long a = rel[d] < 0 ? -rel[d] : rel[d]; if(a > maxd) maxd = a;
                    const long tp = t->coord[d] >> 1, sp = (t->coord[d] + rel[d]) >> 1; off = off && sp - tp >= -1 && sp - tp <= 1; }
                off = off && maxd >= 2;
            }
            irsym_assert(srcok, YG_M2L_SRC); irsym_assert(off, YG_M2L_OFF);
        }
        for(long i = 0; i < n; ++i) tgt[0] += src[i].get()[0];
    }
    template <class Sym, class C, class CC>
    void L2L(const Sym& hdr, const long level, const C& up, CC& low, const long pos[], const long n) const {
        if(gTK.geom && gTK.periodic && gRT.byL(&up) == nullptr){ virtualGeom(kg, level); virtualL2L(gRT, level, up, low, pos, n); }
        else if(gTK.geom){
            const CellRec* p = gRT.byL(&up);
            bool ok = n >= 1 && p != nullptr && p->level == level && p->idx == hdr.spaceIndex;
            for(long i = 0; i < n && ok; ++i){
                const CellRec* c = gRT.byL(&low[i].get());
                ok = ok && c != nullptr && c->level == level + 1 && (c->idx >> DIM) == p->idx && pos[i] == (c->idx & ((1L << DIM) - 1));
            }
            irsym_assert(ok, YG_L2L);
        }
        for(long i = 0; i < n; ++i) low[i].get()[0] += up[0];
    }
    template <class Sym, class LC, class PV, class PR>
    void L2P(const Sym& hdr, const LC& leaf, const long idx[], const PV& data, PR& rhs, const long n) const {
        if(gTK.geom){
            const CellRec* c = gRT.byL(&leaf);
            irsym_assert(c != nullptr && c->level == HEIGHT - 1 && c->idx == hdr.spaceIndex, YG_L2P);
            checkLeaf(gRT, NS, NT, hdr, idx, data, n, YG_L2P);
        }
        for(long i = 0; i < n; ++i) addRhs(rhs, i, leaf[0]);
    }
    template <class SymS, class PVS, class SymT, class PVT, class PR>
    void P2PTsm(const SymS& shdr, const long sidx[], const PVS& sdata, const long ns,
                const SymT& thdr, const long tidx[], const PVT& tdata, PR& trhs, const long nt, const long code) const {
        if(gTK.geom){
            irsym_assert(ns >= 1 && nt >= 1, YG_N);
            checkLeaf(gRS, 0, NS, shdr, sidx, sdata, ns, YG_P2P_SRC);
            checkLeaf(gRT, NS, NT, thdr, tidx, tdata, nt, YG_P2P_TGT);
            const auto rel = Idx::getRelativePosFromNeighborIndex(code);
            bool off = true; long maxd = 0;
            for(int d = 0; d < DIM; ++d){ if(gTK.periodic) off = off && wrapDelta(shdr.boxCoord[d] - thdr.boxCoord[d] - rel[d], Side) == 0; else off = off && (shdr.boxCoord[d] - thdr.boxCoord[d]) == rel[d]; const long a = rel[d] < 0 ? -rel[d] : rel[d]; if(a > maxd) maxd = a; }
            irsym_assert(off && maxd <= 1, YG_P2P_OFF);
        }
        U ss = 0; for(long i = 0; i < ns; ++i) ss += gP.w[sidx[i]];
        for(long i = 0; i < nt; ++i) addRhs(trhs, i, ss);
    }
    // operators a target/source executor must never call
    template <class... A> void P2P(A&&...) const { irsym_assert(false, Y_NO_OTHER_OP); }
    template <class... A> void P2PInner(A&&...) const { irsym_assert(false, Y_NO_OTHER_OP); }
};
using KernelT = TKernel<Real, Idx>;
using AlgoT = TbfAlgorithmTsm<Real, KernelT, Idx>;

static void forkCfg(long& a0, long& a1, long& a3){
    if(a0 == -100) a0 = -1;          // automatic block size (EstimateTsm)
    else if(a0 < 0) a0 = 1 + irsym_choose(-a0);
    if(a1 < 0) a1 = irsym_choose(2);
    if(a3 == -2) a3 = irsym_choose(2) ? 0 : -1;
    irsym_note(1, a0); irsym_note(2, a1); irsym_note(3, a3);
}

// structure of one of the two trees against the oracle set of its own particles
template <class GroupsAt>
static void checkStructureN(GroupsAt&& groupsAt, const Idx& space, const long* leafIdxAll, long first, long count, long blockSize, bool oneGroupPerParent, long aid){
    bool ok = true;
    for(long level = 0; level < HEIGHT; ++level){
        long set[NPART]; long n = 0;
        for(long p = first; p < first + count; ++p){
            const long c = leafIdxAll[p] >> (DIM * (HEIGHT - 1 - level));
            long i = 0; while(i < n && set[i] < c) ++i;
            if(i < n && set[i] == c) continue;
            for(long j = n; j > i; --j) set[j] = set[j - 1];
            set[i] = c; ++n;
        }
        long k = 0;
        for(const auto& g : groupsAt(level)){
            const long nb = g.getNbCells();
            ok = ok && nb >= 1 && g.getStartingSpacialIndex() == g.getCellSpacialIndex(0) && g.getEndingSpacialIndex() == g.getCellSpacialIndex(nb - 1);
            for(long i = 0; i < nb; ++i, ++k) ok = ok && k < n && g.getCellSpacialIndex(i) == set[k < n ? k : 0];
            if(level == HEIGHT - 1 || !oneGroupPerParent) ok = ok && nb <= blockSize;
        }
        ok = ok && k == n;
    }
    irsym_assert(ok, aid);
}

// a0 block size (<0 forked), a1 grouping (<0 forked), a2 geometry checks, a3 upper level
ENTRY(h_c09){
    forkCfg(a0, a1, a3);
    const Cfg cfg = makeCfg();
    // sources first, then targets; exchangeable inside each set
    for(long p = 0; p < NPART; ++p){
        for(int d = 0; d < DIM; ++d) gP.k[p][d] = chooseK();
        if(p > 0 && p != NS) irsym_assume(keyOf(gP.k[p - 1]) <= keyOf(gP.k[p]));
        for(int d = 0; d < DIM; ++d) gP.pos[p][d] = cfg.getBoxCorner()[d] + Real(gP.k[p][d]) * (cfg.getLeafWidths()[d] / Real(2));
        for(int e = 0; e < NEXTRA; ++e) gP.pos[p][DIM + e] = Real(1000 * (p + 1) + e) + Real(0.25);
        gP.w[p] = irsym_symbolic_u64();       // targets get a symbol too: it must never show up in any result
    }
    PosVec src(NS), tgt(NT);
    for(long p = 0; p < NS; ++p) src[p] = gP.pos[p];
    for(long p = 0; p < NT; ++p) tgt[p] = gP.pos[NS + p];
    U totalS = 0; for(long p = 0; p < NS; ++p) totalS += gP.w[p];
    const Idx space(cfg);
    long leafIdx[NPART]; for(long p = 0; p < NPART; ++p) leafIdx[p] = leafIndexOfP(space, p);
    TreeTsm tree(cfg, src, tgt, a0, a1 != 0);
    gRS.clear(); gRT.clear();
    tree.applyToAllCellsSource([&](const long level, auto&& hdr, auto&& mOpt, auto&&){ CellRec& r = gRS.cells[gRS.nbCells++]; r.level = level; r.idx = hdr.spaceIndex; for(int d = 0; d < DIM; ++d) r.coord[d] = hdr.boxCoord[d]; r.m = mOpt ? static_cast<const void*>(&mOpt->get()) : nullptr; r.l = nullptr; });
    tree.applyToAllCellsTarget([&](const long level, auto&& hdr, auto&&, auto&& lOpt){ CellRec& r = gRT.cells[gRT.nbCells++]; r.level = level; r.idx = hdr.spaceIndex; for(int d = 0; d < DIM; ++d) r.coord[d] = hdr.boxCoord[d]; r.m = nullptr; r.l = lOpt ? static_cast<const void*>(&lOpt->get()) : nullptr; });
    tree.applyToAllLeavesSource([&](auto&& hdr, const long* pidx, auto&& data, auto&&){ LeafRec& r = gRS.leaves[gRS.nbLeaves++]; r.idx = hdr.spaceIndex; r.nb = hdr.nbParticles; r.pidx = pidx; for(int d = 0; d < DIM; ++d) r.coord[d] = hdr.boxCoord[d]; (void)data; });
    tree.applyToAllLeavesTarget([&](auto&& hdr, const long* pidx, auto&& data, auto&&){ LeafRec& r = gRT.leaves[gRT.nbLeaves++]; r.idx = hdr.spaceIndex; r.nb = hdr.nbParticles; r.pidx = pidx; for(int d = 0; d < DIM; ++d) r.coord[d] = hdr.boxCoord[d]; (void)data; });
    gTK = TFlags(); gTK.geom = a2 != 0;
    const long upper = a3 < 0 ? TbfDefaultLastLevel : a3;
    AlgoT algo(cfg, upper);
    algo.execute(tree);
    // every target: exactly one contribution from every source, nothing else
    long seen = 0; bool rhsok = true;
    tree.applyToAllLeavesTarget([&](auto&& hdr, const long* pidx, auto&&, auto&& rhs){
        for(long i = 0; i < hdr.nbParticles; ++i){ for(int r = 0; r < NRHS; ++r) rhsok = rhsok & (rhs[r][i] == U(r + 1) * totalS); irsym_observe(rhs[0][i]); irsym_observe(pidx[i]); ++seen; }
    });
    irsym_assert(rhsok, Y_RHS); irsym_assert(seen == NT, Y_SEEN);
    // cell level: source multipoles, target locals
    bool mok = true, lok = true;
    tree.applyToAllCellsSource([&](const long level, auto&& hdr, auto&& mOpt, auto&&){
        if(level >= upper && HEIGHT > upper){
            U e = 0; for(long p = 0; p < NS; ++p) if((leafIdx[p] >> (DIM * (HEIGHT - 1 - level))) == hdr.spaceIndex) e += gP.w[p];
            mok = mok & (mOpt->get()[0] == e);
        }
    });
    tree.applyToAllCellsTarget([&](const long level, auto&& hdr, auto&&, auto&& lOpt){
        if(level >= upper && HEIGHT > upper){
            U e = 0;
            for(long l = level, i = hdr.spaceIndex; l >= upper && l >= 0; --l, i >>= DIM){
                const auto il = space.getInteractionListForIndex(i, l);
                for(const auto s : il) for(long p = 0; p < NS; ++p) if((leafIdx[p] >> (DIM * (HEIGHT - 1 - l))) == s) e += gP.w[p];
            }
            lok = lok & (lOpt->get()[0] == e);
        }
    });
    irsym_assert(mok, Y_MULTIPOLE); irsym_assert(lok, Y_LOCAL);
    // sources unchanged; structure of both trees
    bool srcSame = true; long sseen = 0;
    tree.applyToAllLeavesSource([&](auto&& hdr, const long* pidx, auto&& data, auto&&){
        for(long i = 0; i < hdr.nbParticles; ++i, ++sseen) for(int v = 0; v < DIM + NEXTRA; ++v){ const DataT e = static_cast<DataT>(gP.pos[pidx[i]][v]); srcSame = srcSame && std::memcmp(&data[v][i], &e, sizeof(DataT)) == 0; }
    });
    irsym_assert(srcSame && sseen == NS, Y_SRC_UNTOUCHED);
    const long bsS = a0 == -1 ? tree.getNbElementsPerGroupSource() : a0, bsT = a0 == -1 ? tree.getNbElementsPerGroupTarget() : a0;
    irsym_assert(bsS >= 1 && bsT >= 1, S_BLOCKSIZE);
    checkStructureN([&](long l) -> const auto& { return tree.getCellGroupsAtLevelSource(l); }, space, leafIdx, 0, NS, bsS, a1 != 0, S_LEVEL_SET);
    checkStructureN([&](long l) -> const auto& { return tree.getCellGroupsAtLevelTarget(l); }, space, leafIdx, NS, NT, bsT, a1 != 0, S_LEVEL_SET);
    // lookups on both trees (C16)
    bool lk = true;
    for(long level = 0; level < HEIGHT; ++level){
        for(long q = -1; q <= space.getUpperBound(level); ++q){
            bool es = false, et = false;
            for(long p = 0; p < NS; ++p) es = es || (leafIdx[p] >> (DIM * (HEIGHT - 1 - level))) == q;
            for(long p = NS; p < NPART; ++p) et = et || (leafIdx[p] >> (DIM * (HEIGHT - 1 - level))) == q;
            auto rs = tree.findGroupWithCellSource(level, q); auto rt = tree.findGroupWithCellTarget(level, q);
            lk = lk && bool(rs) == es && bool(rt) == et;
            if(rs) lk = lk && rs->first.get().getCellSpacialIndex(rs->second) == q;
            if(rt) lk = lk && rt->first.get().getCellSpacialIndex(rt->second) == q;
        }
    }
    irsym_assert(lk, Q_CELL);
    // bulk export of both trees (C17) and rebuild of the pair (C13): exports keyed by original index; a second execute doubles the results
    if(a4){
        auto ds = tree.getAllParticlesDataSource(); auto dt = tree.getAllParticlesDataTarget(); auto rt = tree.getAllParticlesRhsTarget();
        bool ex = true;
        for(long p = 0; p < NS; ++p) for(int v = 0; v < DIM + NEXTRA; ++v){ const Real e = static_cast<Real>(static_cast<DataT>(gP.pos[p][v])); ex = ex && std::memcmp(&ds[p][v], &e, sizeof(Real)) == 0; }
        for(long p = 0; p < NT; ++p){
            for(int v = 0; v < DIM + NEXTRA; ++v){ const Real e = static_cast<Real>(static_cast<DataT>(gP.pos[NS + p][v])); ex = ex && std::memcmp(&dt[p][v], &e, sizeof(Real)) == 0; }
            for(int r = 0; r < NRHS; ++r) ex = ex & (rt[p][r] == U(r + 1) * totalS);
        }
        irsym_assert(ex, X_DATA);
        tree.rebuild();
        gTK.geom = false;        // the address registries describe the tree before rebuild()
        AlgoT algo2(cfg, upper);
        algo2.execute(tree);
        bool twice = true; long seen2 = 0;
        tree.applyToAllLeavesTarget([&](auto&& hdr, const long* pidx, auto&&, auto&& rhs){
            for(long i = 0; i < hdr.nbParticles; ++i, ++seen2) for(int r = 0; r < NRHS; ++r) twice = twice & (rhs[r][i] == U(2) * U(r + 1) * totalS);
        });
        irsym_assert(twice && seen2 == NT, R_RHS_TWICE_T);
        checkStructureN([&](long l) -> const auto& { return tree.getCellGroupsAtLevelSource(l); }, space, leafIdx, 0, NS, bsS, a1 != 0, S_LEVEL_SET);
        checkStructureN([&](long l) -> const auto& { return tree.getCellGroupsAtLevelTarget(l); }, space, leafIdx, NS, NT, bsT, a1 != 0, S_LEVEL_SET);
    }
}

// one side empty: sources without targets / targets without sources are valid inputs of the target/source mode
enum AidET { ET_EMPTY = 440 };
ENTRY(h_tsm_empty){
    forkCfg(a0, a1, a3);
    const long which = irsym_choose(3);          // 0: no sources, 1: no targets, 2: neither
    const Cfg cfg = makeCfg();
    for(long p = 0; p < NPART; ++p){
        for(int d = 0; d < DIM; ++d){ gP.k[p][d] = chooseK(); gP.pos[p][d] = cfg.getBoxCorner()[d] + Real(gP.k[p][d]) * (cfg.getLeafWidths()[d] / Real(2)); }
        gP.w[p] = irsym_symbolic_u64();
    }
    PosVec src, tgt;
    if(which == 1) for(long p = 0; p < NS; ++p) src.push_back(gP.pos[p]);
    if(which == 0) for(long p = 0; p < NT; ++p) tgt.push_back(gP.pos[NS + p]);
    TreeTsm tree(cfg, src, tgt, a0, a1 != 0);
    gRS.clear(); gRT.clear(); gTK = TFlags();
    AlgoT algo(cfg, a3 < 0 ? TbfDefaultLastLevel : a3);
    algo.execute(tree);
    bool ok = true; long seen = 0;
    tree.applyToAllLeavesTarget([&](auto&& hdr, const long*, auto&&, auto&& rhs){ for(long i = 0; i < hdr.nbParticles; ++i, ++seen) ok = ok & (rhs[0][i] == 0); });
    irsym_assert(ok && seen == (long)tgt.size(), ET_EMPTY);
    tree.rebuild();
    algo.execute(tree);
    irsym_observe(seen);
}

// C12 on the target/source executor: every dependency-ordered partition of the six flags equals one full run
enum AidTS { TS_STAGED = 450, TS_ALLFLAGS };
static const int kFlagOfT[6] = { TbfAlgorithmUtils::TbfP2M, TbfAlgorithmUtils::TbfM2M, TbfAlgorithmUtils::TbfM2L, TbfAlgorithmUtils::TbfL2L,
                                 TbfAlgorithmUtils::TbfL2P, TbfAlgorithmUtils::TbfP2P };
ENTRY(h_c12_tsm){
    forkCfg(a0, a1, a3);
    const Cfg cfg = makeCfg();
    for(long p = 0; p < NPART; ++p){
        for(int d = 0; d < DIM; ++d) gP.k[p][d] = chooseK();
        if(p > 0 && p != NS) irsym_assume(keyOf(gP.k[p - 1]) <= keyOf(gP.k[p]));
        for(int d = 0; d < DIM; ++d) gP.pos[p][d] = cfg.getBoxCorner()[d] + Real(gP.k[p][d]) * (cfg.getLeafWidths()[d] / Real(2));
        gP.w[p] = irsym_symbolic_u64();
    }
    PosVec src(NS), tgt(NT);
    for(long p = 0; p < NS; ++p) src[p] = gP.pos[p];
    for(long p = 0; p < NT; ++p) tgt[p] = gP.pos[NS + p];
    const long upper = a3 < 0 ? TbfDefaultLastLevel : a3;
    gTK = TFlags();
    const long cuts = irsym_choose(16);
    long groups[6]; long ng = 0; long cur = 0;
    for(int op = 0; op < 5; ++op){ cur |= kFlagOfT[op]; if(op == 4 || ((cuts >> op) & 1)){ groups[ng++] = cur; cur = 0; } }
    const long where = irsym_choose(2 * ng + 1);
    long seq[8]; long ns = 0;
    for(long g = 0; g <= ng; ++g){
        if(where >= ng && where - ng == g) seq[ns++] = kFlagOfT[5];
        if(g < ng) seq[ns++] = groups[g] | (where == g ? kFlagOfT[5] : 0);
    }
    U refRhs[NT > 0 ? NT : 1]; U refL[MaxCells]; long nl = 0;
    { TreeTsm full(cfg, src, tgt, a0, a1 != 0); AlgoT algo(cfg, upper); algo.execute(full);
      full.applyToAllLeavesTarget([&](auto&& hdr, const long* pidx, auto&&, auto&& rhs){ for(long i = 0; i < hdr.nbParticles; ++i) refRhs[pidx[i]] = rhs[0][i]; });
      full.applyToAllCellsTarget([&](const long, auto&&, auto&&, auto&& lOpt){ refL[nl++] = lOpt->get()[0]; }); }
    TreeTsm st(cfg, src, tgt, a0, a1 != 0); AlgoT algo(cfg, upper);
    long all = 0; for(long i = 0; i < ns; ++i){ algo.execute(st, int(seq[i])); all |= seq[i]; }
    irsym_assert(all == TbfAlgorithmUtils::TbfNearAndFarFields, TS_ALLFLAGS);
    bool ok = true; long k = 0;
    st.applyToAllLeavesTarget([&](auto&& hdr, const long* pidx, auto&&, auto&& rhs){ for(long i = 0; i < hdr.nbParticles; ++i){ ok = ok & (rhs[0][i] == refRhs[pidx[i]]); irsym_observe(rhs[0][i]); } });
    st.applyToAllCellsTarget([&](const long, auto&&, auto&&, auto&& lOpt){ ok = ok & (lOpt->get()[0] == refL[k++]); });
    irsym_assert(ok && k == nl, TS_STAGED);
}
