// C10 (target/source variant): periodic ordering + TbfAlgorithmTsm(cfg, TbfDefaultLastLevelPeriodic) + TbfAlgorithmPeriodicTopTreeTsm
#undef ORD
#define ORD 1
#include "w_tsm.cpp"
using TopAlgoT = TbfAlgorithmPeriodicTopTreeTsm<Real, KernelT, MCell, LCell, Idx>;
enum AidPT { PT_RHS = 520, PT_SEEN, PT_COUNTS };
// a0 block size (<0 forked), a1 grouping (<0 forked), a2 = extra levels k (-9: forked over -1..a4)
ENTRY(h_c10_tsm){
    long dummy = -1;
    forkCfg(a0, a1, dummy);
    long k = a2; if(k == -9) k = irsym_choose(a4 + 2) - 1;
    irsym_note(3, k);
    const Cfg cfg = makeCfg();
    for(long p = 0; p < NPART; ++p){
        for(int d = 0; d < DIM; ++d) gP.k[p][d] = chooseK();
        if(p > 0 && p != NS) irsym_assume(keyOf(gP.k[p - 1]) <= keyOf(gP.k[p]));
        for(int d = 0; d < DIM; ++d) gP.pos[p][d] = cfg.getBoxCorner()[d] + Real(gP.k[p][d]) * (cfg.getLeafWidths()[d] / Real(2));
        gP.w[p] = irsym_symbolic_u64();
    }
    PosVec src(NS), tgt(NT);
    for(long p = 0; p < NS; ++p) src[p] = gP.pos[p];
    for(long p = 0; p < NT; ++p) tgt[p] = gP.pos[NS + p];
    U totalS = 0; for(long p = 0; p < NS; ++p) totalS += gP.w[p];
    TreeTsm tree(cfg, src, tgt, a0, a1 != 0);
    gRS.clear(); gRT.clear();
    tree.applyToAllCellsSource([&](const long level, auto&& hdr, auto&& mOpt, auto&&){ CellRec& r = gRS.cells[gRS.nbCells++]; r.level = level; r.idx = hdr.spaceIndex; for(int d = 0; d < DIM; ++d) r.coord[d] = hdr.boxCoord[d]; r.m = mOpt ? static_cast<const void*>(&mOpt->get()) : nullptr; r.l = nullptr; });
    tree.applyToAllCellsTarget([&](const long level, auto&& hdr, auto&&, auto&& lOpt){ CellRec& r = gRT.cells[gRT.nbCells++]; r.level = level; r.idx = hdr.spaceIndex; for(int d = 0; d < DIM; ++d) r.coord[d] = hdr.boxCoord[d]; r.m = nullptr; r.l = lOpt ? static_cast<const void*>(&lOpt->get()) : nullptr; });
    tree.applyToAllLeavesSource([&](auto&& hdr, const long* pidx, auto&&, auto&&){ LeafRec& r = gRS.leaves[gRS.nbLeaves++]; r.idx = hdr.spaceIndex; r.nb = hdr.nbParticles; r.pidx = pidx; for(int d = 0; d < DIM; ++d) r.coord[d] = hdr.boxCoord[d]; });
    tree.applyToAllLeavesTarget([&](auto&& hdr, const long* pidx, auto&&, auto&&){ LeafRec& r = gRT.leaves[gRT.nbLeaves++]; r.idx = hdr.spaceIndex; r.nb = hdr.nbParticles; r.pidx = pidx; for(int d = 0; d < DIM; ++d) r.coord[d] = hdr.boxCoord[d]; });
    gTK = TFlags(); gTK.geom = true; gTK.periodic = true;
    gTop = TopState(); gTop.k = k; for(int d = 0; d < DIM; ++d) gTop.boxw[d] = cfg.getBoxWidths()[d];
    AlgoT algo(cfg, TbfDefaultLastLevelPeriodic);
    TopAlgoT top(cfg, k);
    algo.execute(tree, TbfAlgorithmUtils::TbfBottomToTopStages);
    top.execute(tree);
    algo.execute(tree, TbfAlgorithmUtils::TbfTransferStages);
    algo.execute(tree, TbfAlgorithmUtils::TbfTopToBottomStages);
    const long R = top.getNbRepetitionsPerDim(); long tot = 1; for(int d = 0; d < DIM; ++d) tot *= R;
    long seen = 0; bool rhsok = true;
    tree.applyToAllLeavesTarget([&](auto&& hdr, const long* pidx, auto&&, auto&& rhs){
        for(long i = 0; i < hdr.nbParticles; ++i){ rhsok = rhsok & (rhs[0][i] == U(tot) * totalS); irsym_observe(rhs[0][i]); irsym_observe(pidx[i]); ++seen; }
    });
    irsym_assert(rhsok, PT_RHS); irsym_assert(seen == NT, PT_SEEN);
    if(k >= 0) irsym_assert(gTop.nM2M == k + 1 && gTop.nM2L == k + 1 && gTop.nL2L == k + 1, PT_COUNTS);
    else irsym_assert(gTop.nM2M == 0 && gTop.nM2L == 0 && gTop.nL2L == 0, PT_COUNTS);
}
