// C14 layout arithmetic (no memory traffic): sizes of the four block kinds and viewer element addresses
// ESZ = element size in bytes, NROWS = rows of the multi-row kinds
#include "tbfglobal.hpp"
#include "utils/tbfutils.hpp"
#include "containers/tbfmemoryblock.hpp"
#include "containers/tbfmemoryscalar.hpp"
#include "containers/tbfmemoryvector.hpp"
#include "containers/tbfmemorymultirvector.hpp"
#include "containers/tbfmemorymultivvector.hpp"
#ifndef ESZ
#define ESZ 32
#endif
#ifndef NROWS
#define NROWS 5
#endif
#if ESZ % 8 == 0
struct E { long b[ESZ / 8]; };
#elif ESZ % 4 == 0
struct E { int b[ESZ / 4]; };
#else
struct E { unsigned char b[ESZ]; };
#endif
static_assert(sizeof(E) == ESZ, "element size");
#define API extern "C" __attribute__((noinline))
API void w_sizes(long n, long* out){
    out[0] = TbfMemoryScalar<E>::GetMemorySizeFromNbItems(1);
    out[1] = TbfMemoryVector<E>::GetMemorySizeFromNbItems(n);
#if (ESZ % 64 == 0) || (64 % ESZ == 0)     // the multi-row kind requires (by static_assert) an element size that divides or is a multiple of the alignment
    out[2] = TbfMemoryMultiRVector<E, NROWS>::GetMemorySizeFromNbItems(n);
#else
    out[2] = 0;
#endif
#if 64 % ESZ == 0      // the multi-column kind requires (by static_assert) an element size that divides the alignment
    out[3] = TbfMemoryMultiVVector<E, NROWS>::GetMemorySizeFromNbItems(n);
#else
    out[3] = 0;
#endif
    out[4] = TbfUtils::GetLeadingDim<E>(n, TbfDefaultMemoryAlignement);
    out[5] = alignof(E);
}
API void w_addr(long n, long i, long row, unsigned char* base, long* out){
    typename TbfMemoryVector<E>::Viewer v1(reinterpret_cast<E*>(base), n);
    typename TbfMemoryVector<E>::ViewerConst c1(reinterpret_cast<const E*>(base), n);
    out[0] = reinterpret_cast<unsigned char*>(&v1.getItem(i)) - base;
#if (ESZ % 64 == 0) || (64 % ESZ == 0)
    typename TbfMemoryMultiRVector<E, NROWS>::Viewer v2(reinterpret_cast<E*>(base), n);
    typename TbfMemoryMultiRVector<E, NROWS>::ViewerConst c2(reinterpret_cast<const E*>(base), n);
    out[1] = reinterpret_cast<unsigned char*>(&v2.getItem(i, row)) - base;
    out[4] = reinterpret_cast<const unsigned char*>(&c2.getItem(i, row)) - base;
#else
    out[1] = 0; out[4] = 0;
#endif
#if 64 % ESZ == 0
    typename TbfMemoryMultiVVector<E, NROWS>::Viewer v3(reinterpret_cast<E*>(base), n);
    out[2] = reinterpret_cast<unsigned char*>(&v3.getItem(i, row)) - base;
#else
    out[2] = 0;
#endif
    out[3] = reinterpret_cast<const unsigned char*>(&c1.getItem(i)) - base;
}
