// C10: periodic ordering + TbfAlgorithm(cfg, TbfDefaultLastLevelPeriodic) + TbfAlgorithmPeriodicTopTree in the documented four-call sequence
#undef ORD
#define ORD 1
#define CHECK_SHIFTER 1
#include "h_common.hpp"
#include "h_checks.hpp"
using TopAlgo = TbfAlgorithmPeriodicTopTree<Real, Kernel, MCell, LCell, Idx>;
enum AidP { P_RHS = 500, P_SEEN, P_REPET, P_INTERVAL };

// a0 block size (<0 forked), a1 grouping (<0 forked), a2 = number of extra levels k (-1..5; -9: forked over -1..a4)
ENTRY(h_c10){
    if(a0 < 0) a0 = 1 + irsym_choose(-a0);
    if(a1 < 0) a1 = irsym_choose(2);
    long k = a2; if(k == -9) k = irsym_choose(a4 + 2) - 1;
    irsym_note(1, a0); irsym_note(2, a1); irsym_note(3, k);
    const Cfg cfg = makeCfg();
    choosePositions(cfg, /*symmetric=*/true);
    U total = 0; for(long p = 0; p < NPART; ++p) total += gP.w[p];
    Tree tree(cfg, gP.pos, a0, a1 != 0);
    gReg.scan(tree);
    gK = KFlags(); gK.geom = true; gK.periodic = true;
    gTop = TopState(); gTop.k = k; for(int d = 0; d < DIM; ++d) gTop.boxw[d] = cfg.getBoxWidths()[d];
    Algo algo(cfg, TbfDefaultLastLevelPeriodic);
    TopAlgo top(cfg, k);
    algo.execute(tree, TbfAlgorithmUtils::TbfBottomToTopStages);
    if(irsym_choose(2) == 0) top.execute(tree);
    else{      // the top-tree executor driven flag by flag must give what one full call gives
        top.execute(tree, TbfAlgorithmUtils::TbfM2M); top.execute(tree, TbfAlgorithmUtils::TbfM2L); top.execute(tree, TbfAlgorithmUtils::TbfL2L);
    }
    algo.execute(tree, TbfAlgorithmUtils::TbfTransferStages);
    algo.execute(tree, TbfAlgorithmUtils::TbfTopToBottomStages);
    // repetition count / interval formulas agree with each other
    const long R = top.getNbRepetitionsPerDim();
    const auto iv = top.getRepetitionsIntervals();
    bool ivok = true; long tot = 1;
    for(int d = 0; d < DIM; ++d){ ivok = ivok && (iv.second[d] - iv.first[d] + 1 == R) && iv.first[d] <= 0 && 0 <= iv.second[d]; tot *= R; }
    irsym_assert(ivok, P_INTERVAL);
    irsym_assert(top.getNbTotalRepetitions() == tot, P_REPET);
    // one contribution from every image of every particle in the repetition cube, none from itself in the central box
    long seen = 0; bool rhsok = true;
    tree.applyToAllLeaves([&](auto&& hdr, const long* pidx, auto&&, auto&& rhs){
        for(long i = 0; i < hdr.nbParticles; ++i){ rhsok = rhsok & (rhs[0][i] == U(tot) * total - gP.w[pidx[i]]); irsym_observe(rhs[0][i]); irsym_observe(pidx[i]); ++seen; }
    });
    irsym_assert(rhsok, P_RHS); irsym_assert(seen == NPART, P_SEEN);
    // the virtual levels were all visited: M2M at k+3..3, M2L at 3..k+3, L2L at 3..k+3
    if(k >= 0) irsym_assert(gTop.nM2M == k + 1 && gTop.nM2L == k + 1 && gTop.nL2L == k + 1, V_COUNTS);
    else irsym_assert(gTop.nM2M == 0 && gTop.nM2L == 0 && gTop.nL2L == 0, V_COUNTS);
    irsym_observe(R);
}
