// Shared vocabulary of the E2 (irsym) tree-level harnesses.  Harness code only: it includes the library headers
// and talks to the library through its public API and kernel callbacks.
#pragma once
#include <array>
#include <vector>
#include <cstring>
#include <optional>
#include <functional>
#include <memory>
#include "tbfglobal.hpp"
#include "utils/tbfutils.hpp"
#include "spacial/tbfspacialconfiguration.hpp"
#include "spacial/tbfmortonspaceindex.hpp"
#include "spacial/tbfhilbertspaceindex.hpp"
#include "core/tbfcellscontainer.hpp"
#include "core/tbfparticlescontainer.hpp"
#include "core/tbfparticlesorter.hpp"
#include "core/tbftree.hpp"
#include "core/tbftreetsm.hpp"
#include "algorithms/tbfalgorithmutils.hpp"
#include "algorithms/sequential/tbfalgorithm.hpp"
#include "algorithms/sequential/tbfalgorithmtsm.hpp"
#include "algorithms/periodic/tbfalgorithmperiodictoptree.hpp"
#include "algorithms/periodic/tbfalgorithmperiodictoptreetsm.hpp"
#include "utils/tbfperiodicshifter.hpp"

extern "C" {
long irsym_choose(long n);                 // fork n ways, returns 0..n-1
unsigned long irsym_symbolic_u64(void);    // fresh independent 64-bit symbol
void irsym_assert(bool c, long id);        // proof obligation: must hold for all values of the symbols on this path
void irsym_assume(bool c);
void irsym_observe(unsigned long v);       // concrete runs only: folded into the trace hash of the differential self-check
void irsym_note(long tag, long v);         // description of the path for evidence samples
void irsym_log(long run, long op, long level, long tgt, long src, long code);   // elementary-interaction log (multiset per run)
long irsym_logs_equal(long runA, long runB);                                   // exact multiset comparison
long irsym_log_count(long run, long op);
void irsym_log_clear(long run);
}

#ifndef DIM
#define DIM 3
#endif
#ifndef HEIGHT
#define HEIGHT 3
#endif
#ifndef NPART
#define NPART 2
#endif
#ifndef ORD
#define ORD 0            // 0 Morton, 1 periodic Morton, 2 Hilbert
#endif
#ifndef REALT
#define REALT double
#endif
#ifndef DATAT
#define DATAT REALT
#endif
#ifndef CONTT
#define CONTT REALT    // element type of the particle container handed to the constructor (may differ from RealType and DataType)
#endif
#ifndef LCELLN
#define LCELLN 1       // number of words of a local expansion (a size different from the multipole's exposes size mix-ups)
#endif
#ifndef NEXTRA
#define NEXTRA 0         // extra data values per particle besides the DIM coordinates
#endif
#ifndef NRHS
#define NRHS 1
#endif
#ifndef BOX
#define BOX 0            // 0: unit box centred at 0.5; 1: shifted, per-dimension widths (all dyadic, so the half lattice is exact)
#endif
#ifndef POSMODE
#define POSMODE 0        // 0: full half-lattice per dimension; 1: leaf x {centre}; 2: leaf x {lower face, centre, upper face of the box for the last leaf}
#endif

using Real = REALT;
using DataT = DATAT;
using U = unsigned long;
constexpr long Dim = DIM;
constexpr long NData = DIM + NEXTRA;
using Cfg = TbfSpacialConfiguration<Real, DIM>;
#if ORD == 0
using Idx = TbfMortonSpaceIndex<DIM, Cfg, false>;
#elif ORD == 1
using Idx = TbfMortonSpaceIndex<DIM, Cfg, true>;
#else
using Idx = TbfHilbertSpaceIndex<DIM, Cfg, false>;
#endif
using MCell = std::array<U, 1>;
using LCell = std::array<U, LCELLN>;
using Tree = TbfTree<Real, DataT, NData, U, NRHS, MCell, LCell, Idx>;
using ContT = CONTT;
using PosArray = std::array<std::array<ContT, NData>, NPART>;

constexpr long Side = 1L << (HEIGHT - 1);     // cells per dimension at the leaf level
constexpr long MaxCells = 4096;

// ------------------------------------------------------------------ configuration / positions
static Cfg makeCfg(){
    std::array<Real, DIM> w, c;
#if BOX == 0
    for(int i = 0; i < DIM; ++i){ w[i] = 1; c[i] = Real(0.5); }
#else
    const Real ws[4] = {Real(2), Real(0.5), Real(8), Real(3)};
    const Real cs[4] = {Real(-3.25), Real(7), Real(0.125), Real(2.5)};
    for(int i = 0; i < DIM; ++i){ w[i] = ws[i % 4]; c[i] = cs[i % 4]; }
#endif
    return Cfg(HEIGHT, w, c);
}

struct Particles {
    long k[NPART][DIM];          // half-lattice coordinates chosen for each particle: position = corner + k * leafWidth/2
    U w[NPART];                  // independent symbolic payload ("weights")
    U extra[NPART][NEXTRA + 1];  // bit patterns of the extra data values
    PosArray pos;
    long leafCoord(long p, long d) const { long c = k[p][d] >> 1; return c < Side ? c : Side - 1; }   // closed upper face is clamped
};
static Particles gP;

// choose the half-lattice point of one coordinate
static long chooseK(){
#if POSMODE == 0
    return irsym_choose(2 * Side + 1);
#elif POSMODE == 1
    return 2 * irsym_choose(Side) + 1;
#elif POSMODE == 3
    const long c = irsym_choose(4);      // deep sparse trees: first, second, last-but-one or last leaf of the axis (cell centres)
    const long leaf = c == 0 ? 0 : c == 1 ? (Side > 1 ? 1 : 0) : c == 2 ? (Side > 1 ? Side - 2 : 0) : Side - 1;
    return 2 * leaf + 1;
#else
    const long leaf = irsym_choose(Side);
    const long v = irsym_choose(leaf == Side - 1 ? 3 : 2);      // lower face, centre, (closed upper face of the box)
    return 2 * leaf + v;
#endif
}

// canonical order key of particle p (exchangeable particles are explored in non-decreasing key order)
// lexicographic comparison of two half-lattice coordinate vectors (no arithmetic on the coordinates: they may use all 63 bits on deep trees)
struct KeyRef { const long* k; };
static KeyRef keyOf(const long kk[DIM]){ return KeyRef{kk}; }
static bool operator<=(const KeyRef& a, const KeyRef& b){ for(int d = 0; d < DIM; ++d){ if(a.k[d] < b.k[d]) return true; if(a.k[d] > b.k[d]) return false; } return true; }

static void choosePositions(const Cfg& cfg, bool symmetric, bool symbolicPayload = true){
    for(long p = 0; p < NPART; ++p){
#if POSMODE == 4
        // dense placement: particle p sits at the centre of the p-th leaf (row-major over the grid): full sibling sets, no forking
        { long q = p; for(int d = 0; d < DIM; ++d){ gP.k[p][d] = 2 * (q % Side) + 1; q /= Side; } }
        (void)symmetric;
#else
        for(int d = 0; d < DIM; ++d) gP.k[p][d] = chooseK();
        if(symmetric && p > 0) irsym_assume(keyOf(gP.k[p - 1]) <= keyOf(gP.k[p]));
#endif
        for(int d = 0; d < DIM; ++d){
            gP.pos[p][d] = ContT(cfg.getBoxCorner()[d] + Real(gP.k[p][d]) * (cfg.getLeafWidths()[d] / Real(2)));
            irsym_note(100 * (p + 1) + d, gP.k[p][d]);
        }
        gP.w[p] = symbolicPayload ? irsym_symbolic_u64() : U(p + 1);
        for(int e = 0; e < NEXTRA; ++e){
#if defined(SYMBOLIC_EXTRA)
            gP.extra[p][e] = irsym_symbolic_u64();
            static_assert(sizeof(ContT) == 8, "symbolic extra values need 64-bit container elements");
            std::memcpy(&gP.pos[p][DIM + e], &gP.extra[p][e], sizeof(ContT));
#else
            gP.pos[p][DIM + e] = ContT(16777217.0 * (p + 1) + e) + ContT(0.25);      // not representable in float: a detour through a narrower type shows
#endif
        }
    }
}

// ------------------------------------------------------------------ registry: what the tree contains, by address
struct CellRec { long level; long idx; long coord[DIM]; const void* m; const void* l; };
struct LeafRec { long idx; long coord[DIM]; long nb; const long* pidx; const void* data[DIM + NEXTRA]; const void* rhs0; };
struct Registry {
    CellRec cells[MaxCells]; long nbCells = 0;
    LeafRec leaves[MaxCells]; long nbLeaves = 0;
    void clear(){ nbCells = 0; nbLeaves = 0; }
    template <class TreeT> void scan(TreeT& tree){
        clear();
        tree.applyToAllCells([this](const long level, auto&& hdr, auto&& mOpt, auto&& lOpt){
            CellRec& r = cells[nbCells++];
            r.level = level; r.idx = hdr.spaceIndex;
            for(int d = 0; d < DIM; ++d) r.coord[d] = hdr.boxCoord[d];
            r.m = mOpt ? static_cast<const void*>(&mOpt->get()) : nullptr;
            r.l = lOpt ? static_cast<const void*>(&lOpt->get()) : nullptr;
        });
        tree.applyToAllLeaves([this](auto&& hdr, const long* pidx, auto&& data, auto&& rhs){
            LeafRec& r = leaves[nbLeaves++];
            r.idx = hdr.spaceIndex; r.nb = hdr.nbParticles; r.pidx = pidx;
            for(int d = 0; d < DIM; ++d) r.coord[d] = hdr.boxCoord[d];
            for(int v = 0; v < DIM + NEXTRA; ++v) r.data[v] = data[v];
            if constexpr (NRHS > 0) r.rhs0 = static_cast<const void*>(rhs[0]); else r.rhs0 = nullptr;
        });
    }
    const CellRec* byM(const void* p) const { for(long i = 0; i < nbCells; ++i) if(cells[i].m == p) return &cells[i]; return nullptr; }
    const CellRec* byL(const void* p) const { for(long i = 0; i < nbCells; ++i) if(cells[i].l == p) return &cells[i]; return nullptr; }
    const CellRec* byIdx(long level, long idx) const { for(long i = 0; i < nbCells; ++i) if(cells[i].level == level && cells[i].idx == idx) return &cells[i]; return nullptr; }
    const LeafRec* leafByPidx(const long* p) const { for(long i = 0; i < nbLeaves; ++i) if(leaves[i].pidx == p) return &leaves[i]; return nullptr; }
    const LeafRec* leafByIdx(long idx) const { for(long i = 0; i < nbLeaves; ++i) if(leaves[i].idx == idx) return &leaves[i]; return nullptr; }
};
static Registry gReg;

// ------------------------------------------------------------------ the harness kernel
// weighted additive kernel (exactly-once oracle) + optional geometry checks (C02) + optional elementary-interaction log (C08/C12/C18)
struct KFlags { bool geom = false; long logRun = -1; bool periodic = false; long limitLevel0 = 1; };
static KFlags gK;
enum Ops { OP_P2M = 1, OP_M2M, OP_M2L, OP_L2L, OP_L2P, OP_P2P, OP_P2PINNER, OP_P2PTSM };
// assertion ids (reported in the violation message)
enum Aid { A_RHS = 1, A_SEEN = 2, A_MULTIPOLE = 3, A_LOCAL = 4,
           G_P2M_CELL = 20, G_P2M_LEAF, G_P2M_PART, G_M2M_PARENT, G_M2M_CHILD, G_M2M_CODE, G_M2M_GEOM, G_M2M_DISTINCT, G_M2M_N,
           G_M2L_TGT, G_M2L_SRC, G_M2L_OFFSET, G_M2L_SEP, G_M2L_N, G_L2L_PARENT, G_L2L_CHILD, G_L2L_CODE, G_L2L_GEOM, G_L2L_N,
           G_L2P_CELL, G_L2P_LEAF, G_P2P_SRC, G_P2P_TGT, G_P2P_OFFSET, G_P2P_ADJ, G_P2P_N, G_P2PI_LEAF, G_DATA_ROW, G_LEVEL };

// periodic top tree: the operators are called on "virtual" cells above the root; they are identified by address, level by level
struct TopState { long k; const void* vM[24]; const void* vL[24]; long nM2M; long nM2L; long nL2L; Real boxw[DIM]; };
static TopState gTop;
enum AidTop { V_M2M_LEVEL = 60, V_M2M_CHILDREN, V_M2L_SRC, V_M2L_WINDOW, V_M2L_LEVEL, V_L2L_PARENT, V_L2L_CHILDREN, V_COUNTS, V_REPET, V_SHIFT, V_WIDTH };

static inline long wrapDelta(long delta, long lim){   // periodic: representative of delta modulo lim in (-lim/2, lim/2]
    long r = delta % lim; if(r < 0) r += lim; return r;
}

// rhs row r accumulates (r+1) * value, so that rows cannot be confused with each other
template <class PR> static inline void addRhs(PR& rhs, long i, U v){
    for(int r = 0; r < NRHS; ++r) rhs[r][i] += U(r + 1) * v;
}

// ---- virtual levels of the periodic top tree (shared by the single-tree and the target/source harness kernels)
// the configuration the top-tree kernel was built from: its cell at virtual level `level` is 2^(k+3-level) real boxes wide (level k+3 = the real box),
// which is what a numerical kernel derives its translation lengths / scale factors from. Widths are scaled by powers of two, so the comparison is exact.
struct KernelGeom { Real bw[DIM]; long height; };
static void virtualGeom(const KernelGeom& g, const long level){
    bool ok = level < g.height;
    const Real scale = Real(1L << (gTop.k + 3));
    for(int d = 0; d < DIM; ++d) ok = ok && g.bw[d] == gTop.boxw[d] * scale;
    irsym_assert(ok, V_WIDTH);
}
template <class CC, class C>
static void virtualM2M(const Registry& reg, const long level, const CC& low, C& up, const long pos[], const long n){
    const long top = gTop.k + 3;
    irsym_assert(3 <= level && level <= top && level < 24 && gTop.vM[level] == nullptr, V_M2M_LEVEL);
    gTop.vM[level] = &up; gTop.nM2M += 1;
    bool ok = n >= 1 && n <= (1L << DIM);
    if(level == top){
        for(long i = 0; i < n && ok; ++i){ const CellRec* c = reg.byM(&low[i].get()); ok = ok && c != nullptr && c->level == 1 && pos[i] == (c->idx & ((1L << DIM) - 1));
            for(long j = 0; j < i; ++j) ok = ok && &low[j].get() != &low[i].get(); }
    }
    else{
        ok = ok && n == (1L << DIM);
        for(long i = 0; i < n && ok; ++i){ ok = ok && static_cast<const void*>(&low[i].get()) == gTop.vM[level + 1] && pos[i] == i; }
    }
    irsym_assert(ok, V_M2M_CHILDREN);
}
template <class CC, class C>
static void virtualM2L(const long level, const CC& src, const long pos[], const long n, C& tgt){
    const long top = gTop.k + 3;
    irsym_assert(3 <= level && level <= top && level < 24 && gTop.vL[level] == nullptr, V_M2L_LEVEL);
    gTop.vL[level] = &tgt; gTop.nM2L += 1;
    bool srcok = true, win = true;
    const long lo = gTop.k == 0 ? -3 : (level == 3 ? -3 : -2), hi = gTop.k == 0 ? 3 : (level == 3 ? 2 : 3);
    long expectN = 1, near = 1; for(int d = 0; d < DIM; ++d){ expectN *= (hi - lo + 1); near *= 3; }
    win = n == expectN - near;
    for(long i = 0; i < n; ++i){
        srcok = srcok && static_cast<const void*>(&src[i].get()) == gTop.vM[level];
        const auto rel = Idx::getRelativePosFromInteractionIndex(pos[i]);
        long maxd = 0; for(int d = 0; d < DIM; ++d){ win = win && lo <= rel[d] && rel[d] <= hi; const long a = rel[d] < 0 ? -rel[d] : rel[d]; if(a > maxd) maxd = a; }
        win = win && maxd >= 2;
        for(long j = 0; j < i; ++j) win = win && pos[j] != pos[i];
    }
    irsym_assert(srcok, V_M2L_SRC); irsym_assert(win, V_M2L_WINDOW);
}
template <class C, class CC>
static void virtualL2L(const Registry& reg, const long level, const C& up, CC& low, const long pos[], const long n){
    const long top = gTop.k + 3;
    irsym_assert(3 <= level && level <= top && level < 24 && static_cast<const void*>(&up) == gTop.vL[level], V_L2L_PARENT);
    gTop.nL2L += 1;
    bool ok = n >= 1;
    if(level == top){
        for(long i = 0; i < n && ok; ++i){ const CellRec* c = reg.byL(&low[i].get()); ok = ok && c != nullptr && c->level == 1 && pos[i] == (c->idx & ((1L << DIM) - 1));
            for(long j = 0; j < i; ++j) ok = ok && &low[j].get() != &low[i].get(); }
    }
    else ok = ok && n == 1 && static_cast<const void*>(&low[0].get()) == gTop.vL[level + 1] && pos[0] == 0;
    irsym_assert(ok, V_L2L_CHILDREN);
}

template <class RealType_T, class SpaceIndexType_T>
class VKernel {
public:
    using SpacialConfiguration = TbfSpacialConfiguration<RealType_T, SpaceIndexType_T::Dim>;
    KernelGeom kg;
    explicit VKernel(const SpacialConfiguration& c){ for(int d = 0; d < DIM; ++d) kg.bw[d] = c.getBoxWidths()[d]; kg.height = c.getTreeHeight(); }
    VKernel(const VKernel&) = default;

    // ---- checks shared by the leaf operators
    template <class Sym, class PV>
    static void checkLeafArgs(const Sym& hdr, const long idx[], const PV& data, long n, long aidLeaf){
        const LeafRec* lr = gReg.leafByPidx(idx);
        irsym_assert(lr != nullptr && lr->idx == hdr.spaceIndex && lr->nb == n && n >= 1, aidLeaf);
        bool ok = true;
        for(long i = 0; i < n; ++i){
            const long p = idx[i];
            ok = ok && (0 <= p && p < NPART);
            if(!(0 <= p && p < NPART)) break;
            for(int d = 0; d < DIM; ++d) ok = ok && (gP.leafCoord(p, d) == hdr.boxCoord[d]);
        }
        irsym_assert(ok, G_P2M_PART);
        // data rows bit-identical to the input
        bool same = true;
        for(long i = 0; i < n && ok; ++i){
            for(int v = 0; v < DIM + NEXTRA; ++v){
                const DataT expect = static_cast<DataT>(gP.pos[idx[i]][v]);
                same = same && (std::memcmp(&data[v][i], &expect, sizeof(DataT)) == 0);
            }
        }
        irsym_assert(same, G_DATA_ROW);
    }

    template <class Sym, class PC, class LC>
    void P2M(const Sym& hdr, const long idx[], const PC& data, const long n, LC& leaf) const {
        if(gK.geom){
            const CellRec* c = gReg.byM(&leaf);
            irsym_assert(c != nullptr && c->level == HEIGHT - 1 && c->idx == hdr.spaceIndex, G_P2M_CELL);
            checkLeafArgs(hdr, idx, data, n, G_P2M_LEAF);
        }
        if(gK.logRun >= 0) for(long i = 0; i < n; ++i) irsym_log(gK.logRun, OP_P2M, HEIGHT - 1, hdr.spaceIndex, idx[i], 0);
        for(long i = 0; i < n; ++i) leaf[0] += gP.w[idx[i]];
    }

    template <class Sym, class CC, class C>
    void M2M(const Sym& hdr, const long level, const CC& low, C& up, const long pos[], const long n) const {
        if(gK.geom && gK.periodic && gReg.byM(&up) == nullptr){ virtualGeom(kg, level); virtualM2M(gReg, level, low, up, pos, n); }
        else if(gK.geom){
            const CellRec* p = gReg.byM(&up);
            irsym_assert(n >= 1 && n <= (1L << DIM), G_M2M_N);
            irsym_assert(p != nullptr && p->level == level && p->idx == hdr.spaceIndex, G_M2M_PARENT);
            bool child = true, code = true, geom = true, distinct = true;
            for(long i = 0; i < n && p != nullptr; ++i){
                const CellRec* c = gReg.byM(&low[i].get());
                child = child && c != nullptr && c->level == level + 1 && (c->idx >> DIM) == p->idx;
                if(c == nullptr) break;
                code = code && pos[i] == (c->idx & ((1L << DIM) - 1));
                for(int d = 0; d < DIM; ++d) geom = geom && c->coord[d] == 2 * p->coord[d] + ((pos[i] >> (DIM - 1 - d)) & 1);
                for(long j = 0; j < i; ++j) distinct = distinct && (&low[j].get() != &low[i].get());
            }
            irsym_assert(child, G_M2M_CHILD); irsym_assert(code, G_M2M_CODE); irsym_assert(geom, G_M2M_GEOM); irsym_assert(distinct, G_M2M_DISTINCT);
        }
        if(gK.logRun >= 0) for(long i = 0; i < n; ++i){ const CellRec* c = gReg.byM(&low[i].get()); irsym_log(gK.logRun, OP_M2M, level, hdr.spaceIndex, c ? c->idx : -1, pos[i]); }
        for(long i = 0; i < n; ++i) up[0] += low[i].get()[0];
    }

    template <class Sym, class CC, class C>
    void M2L(const Sym& hdr, const long level, const CC& src, const long pos[], const long n, C& tgt) const {
        if(gK.geom && gK.periodic && gReg.byL(&tgt) == nullptr){ virtualGeom(kg, level); virtualM2L(level, src, pos, n, tgt); }
        else if(gK.geom){
            const CellRec* t = gReg.byL(&tgt);
            irsym_assert(n >= 1, G_M2L_N);
            irsym_assert(t != nullptr && t->level == level && t->idx == hdr.spaceIndex, G_M2L_TGT);
            bool srcok = true, off = true, sep = true;
            const long lim = 1L << level;
            for(long i = 0; i < n && t != nullptr; ++i){
                const CellRec* s = gReg.byM(&src[i].get());
                srcok = srcok && s != nullptr && s->level == level;
                if(s == nullptr) break;
                const auto rel = Idx::getRelativePosFromInteractionIndex(pos[i]);
                long maxd = 0; bool padj = true;
                for(int d = 0; d < DIM; ++d){
                    const long delta = s->coord[d] - t->coord[d];
                    if(gK.periodic) off = off && wrapDelta(delta - rel[d], lim) == 0;
                    else off = off && delta == rel[d];
                    const long a = rel[d] < 0 ? -rel[d] : rel[d]; if(a > maxd) maxd = a;
                    // parents adjacent (or equal): floor((t+rel)/2) - floor(t/2) in [-1,1]
                    const long tp = t->coord[d] >> 1; const long sp = (t->coord[d] + rel[d]) >> 1;   // arithmetic shift = floor
                    padj = padj && (sp - tp >= -1 && sp - tp <= 1);
                }
                sep = sep && maxd >= 2 && padj;
            }
            irsym_assert(srcok, G_M2L_SRC); irsym_assert(off, G_M2L_OFFSET); irsym_assert(sep, G_M2L_SEP);
        }
        if(gK.logRun >= 0){
            for(long i = 0; i < n; ++i){
                const CellRec* s = gReg.byM(&src[i].get());
                irsym_log(gK.logRun, OP_M2L, level, hdr.spaceIndex, s ? s->idx : -1, pos[i]);
            }
        }
        for(long i = 0; i < n; ++i) tgt[0] += src[i].get()[0];
    }

    template <class Sym, class C, class CC>
    void L2L(const Sym& hdr, const long level, const C& up, CC& low, const long pos[], const long n) const {
        if(gK.geom && gK.periodic && gReg.byL(&up) == nullptr){ virtualGeom(kg, level); virtualL2L(gReg, level, up, low, pos, n); }
        else if(gK.geom){
            const CellRec* p = gReg.byL(&up);
            irsym_assert(n >= 1 && n <= (1L << DIM), G_L2L_N);
            irsym_assert(p != nullptr && p->level == level && p->idx == hdr.spaceIndex, G_L2L_PARENT);
            bool child = true, code = true, geom = true;
            for(long i = 0; i < n && p != nullptr; ++i){
                const CellRec* c = gReg.byL(&low[i].get());
                child = child && c != nullptr && c->level == level + 1 && (c->idx >> DIM) == p->idx;
                if(c == nullptr) break;
                code = code && pos[i] == (c->idx & ((1L << DIM) - 1));
                for(int d = 0; d < DIM; ++d) geom = geom && c->coord[d] == 2 * p->coord[d] + ((pos[i] >> (DIM - 1 - d)) & 1);
                for(long j = 0; j < i; ++j) child = child && (&low[j].get() != &low[i].get());
            }
            irsym_assert(child, G_L2L_CHILD); irsym_assert(code, G_L2L_CODE); irsym_assert(geom, G_L2L_GEOM);
        }
        if(gK.logRun >= 0) for(long i = 0; i < n; ++i){ const CellRec* c = gReg.byL(&low[i].get()); irsym_log(gK.logRun, OP_L2L, level, c ? c->idx : -1, hdr.spaceIndex, pos[i]); }
        for(long i = 0; i < n; ++i) low[i].get()[0] += up[0];
    }

    template <class Sym, class LC, class PV, class PR>
    void L2P(const Sym& hdr, const LC& leaf, const long idx[], const PV& data, PR& rhs, const long n) const {
        if(gK.geom){
            const CellRec* c = gReg.byL(&leaf);
            irsym_assert(c != nullptr && c->level == HEIGHT - 1 && c->idx == hdr.spaceIndex, G_L2P_CELL);
            checkLeafArgs(hdr, idx, data, n, G_L2P_LEAF);
        }
        if(gK.logRun >= 0) for(long i = 0; i < n; ++i) irsym_log(gK.logRun, OP_L2P, HEIGHT - 1, idx[i], hdr.spaceIndex, 0);
        for(long i = 0; i < n; ++i) addRhs(rhs, i, leaf[0]);
    }

    template <class Sym, class PV, class PR>
    void P2P(const Sym& shdr, const long sidx[], const PV& sdata, PR& srhs, const long ns,
             const Sym& thdr, const long tidx[], const PV& tdata, PR& trhs, const long nt, const long code) const {
        if(gK.geom){
            irsym_assert(ns >= 1 && nt >= 1, G_P2P_N);
            checkLeafArgs(shdr, sidx, sdata, ns, G_P2P_SRC);
            checkLeafArgs(thdr, tidx, tdata, nt, G_P2P_TGT);
            const auto rel = Idx::getRelativePosFromNeighborIndex(code);
            bool off = true; long maxd = 0;
            for(int d = 0; d < DIM; ++d){
                const long delta = shdr.boxCoord[d] - thdr.boxCoord[d];
                if(gK.periodic) off = off && wrapDelta(delta - rel[d], Side) == 0;
                else off = off && delta == rel[d];
                const long a = rel[d] < 0 ? -rel[d] : rel[d]; if(a > maxd) maxd = a;
            }
            irsym_assert(off, G_P2P_OFFSET);
            irsym_assert(maxd == 1 && (gK.periodic || shdr.spaceIndex != thdr.spaceIndex), G_P2P_ADJ);
#ifdef CHECK_SHIFTER
            if(gK.periodic){
                // the documented shifter must displace the sources by the whole multiple of the box width that puts their leaf at target + offset
                const Cfg cfgS = makeCfg(); const Idx spaceS(cfgS);
                const auto shift = TbfPeriodicShifter<Real, Idx>::Neighbor::GetShiftCoef(shdr, thdr, spaceS, code);
                const bool need = TbfPeriodicShifter<Real, Idx>::Neighbor::NeedToShift(shdr, thdr, spaceS, code);
                bool sh = true, any = false;
                for(int d = 0; d < DIM; ++d){
                    const Real w = cfgS.getBoxWidths()[d];
                    const long m = shift[d] == w ? 1 : shift[d] == -w ? -1 : shift[d] == Real(0) ? 0 : 99;
                    sh = sh && m != 99 && shdr.boxCoord[d] + m * Side == thdr.boxCoord[d] + rel[d];
                    any = any || m != 0;
                }
                irsym_assert(sh && need == any, V_SHIFT);
                auto dup = TbfPeriodicShifter<Real, Idx>::Neighbor::DuplicatePositionsAndApplyShift(shdr, thdr, spaceS, code, sdata, ns);
                bool dupok = true;
                for(long i = 0; i < ns; ++i) for(int d = 0; d < DIM; ++d) dupok = dupok && dup[d][i] == sdata[d][i] + shift[d];
                irsym_assert(dupok, V_SHIFT);
                TbfPeriodicShifter<Real, Idx>::Neighbor::FreePositions(dup);
            }
#endif
        }
        if(gK.logRun >= 0){
            for(long i = 0; i < nt; ++i) for(long j = 0; j < ns; ++j){
                irsym_log(gK.logRun, OP_P2P, HEIGHT - 1, tidx[i], sidx[j], 0);
                irsym_log(gK.logRun, OP_P2P, HEIGHT - 1, sidx[j], tidx[i], 0);
            }
            irsym_log(gK.logRun, OP_P2P + 100, HEIGHT - 1, thdr.spaceIndex, shdr.spaceIndex, code);
        }
        U st = 0, ss = 0;
        for(long i = 0; i < ns; ++i) ss += gP.w[sidx[i]];
        for(long i = 0; i < nt; ++i) st += gP.w[tidx[i]];
        for(long i = 0; i < nt; ++i) addRhs(trhs, i, ss);
        for(long i = 0; i < ns; ++i) addRhs(srhs, i, st);
    }

    template <class Sym, class PV, class PR>
    void P2PInner(const Sym& hdr, const long idx[], const PV& data, PR& rhs, const long n) const {
        if(gK.geom) checkLeafArgs(hdr, idx, data, n, G_P2PI_LEAF);
        if(gK.logRun >= 0) for(long i = 0; i < n; ++i) for(long j = 0; j < n; ++j) if(i != j) irsym_log(gK.logRun, OP_P2PINNER, HEIGHT - 1, idx[i], idx[j], 0);
        U tot = 0; for(long i = 0; i < n; ++i) tot += gP.w[idx[i]];
        for(long i = 0; i < n; ++i) addRhs(rhs, i, tot - gP.w[idx[i]]);
    }
};
using Kernel = VKernel<Real, Idx>;
using Algo = TbfAlgorithm<Real, Kernel, Idx>;

#define ENTRY(name) extern "C" __attribute__((noinline)) void name(long a0, long a1, long a2, long a3, long a4, long a5)
