// E2 harnesses on a single tree + sequential executor (C01, C02, C06, C07, C08, C12, C16, C17 ...)
#include "h_common.hpp"

// ---- oracles computed from the particles' leaf coordinates only (independent of the tree)
static long leafIndexOf(const Idx& s, long p){
    std::array<long, DIM> c; for(int d = 0; d < DIM; ++d) c[d] = gP.leafCoord(p, d);
    return s.getIndexFromBoxPos(c);
}
// sum of the weights of the particles below cell (level, idx): ancestor relation by shifting the particle's leaf index
static U oracleMultipole(const long leafIdx[NPART], long level, long idx){
    U r = 0;
    for(long p = 0; p < NPART; ++p) if((leafIdx[p] >> (DIM * (HEIGHT - 1 - level))) == idx) r += gP.w[p];
    return r;
}
static bool cellExists(const long leafIdx[NPART], long level, long idx){
    for(long p = 0; p < NPART; ++p) if((leafIdx[p] >> (DIM * (HEIGHT - 1 - level))) == idx) return true;
    return false;
}
static U oracleLocal(const Idx& s, const long leafIdx[NPART], long level, long idx, long upper){
    U r = 0;
    for(long l = level, i = idx; l >= upper && l >= 0; --l, i >>= DIM){
        const auto il = s.getInteractionListForIndex(i, l);
        for(const auto src : il) if(cellExists(leafIdx, l, src)) r += oracleMultipole(leafIdx, l, src);
    }
    return r;
}

// C01 (+ C02 when a2 != 0): build, execute, check rhs / multipoles / locals
// a0 = block size, a1 = one group per parent, a2 = geometry checks in the kernel, a3 = upper working level (-1: default)
// a0 < 0: block size forked over 1..-a0; a1 < 0: grouping mode forked; a3 == -2: upper level forked over {default, 0}
static void forkConfig(long& a0, long& a1, long& a3){
    if(a0 < 0) a0 = 1 + irsym_choose(-a0);
    if(a1 < 0) a1 = irsym_choose(2);
    if(a3 == -2) a3 = irsym_choose(2) ? 0 : -1;
    irsym_note(1, a0); irsym_note(2, a1); irsym_note(3, a3);
}

ENTRY(h_c01){
    forkConfig(a0, a1, a3);
    const Cfg cfg = makeCfg();
    choosePositions(cfg, /*symmetric=*/true);
    U total = 0; for(long p = 0; p < NPART; ++p) total += gP.w[p];
    Tree tree(cfg, gP.pos, a0, a1 != 0);
    gReg.scan(tree);
    gK = KFlags(); gK.geom = a2 != 0;
    const long upper = a3 < 0 ? TbfDefaultLastLevel : a3;
    Algo algo(cfg, upper);
    algo.execute(tree);
    // (1) particle level: exactly one contribution from every other particle
    long seen = 0; bool rhsok = true;
    tree.applyToAllLeaves([&](auto&& hdr, const long* pidx, auto&&, auto&& rhs){
        for(long i = 0; i < hdr.nbParticles; ++i){
            rhsok = rhsok & (rhs[0][i] == total - gP.w[pidx[i]]);
            irsym_observe(rhs[0][i]); irsym_observe(pidx[i]);
            ++seen;
        }
    });
    irsym_assert(rhsok, A_RHS);
    irsym_assert(seen == NPART, A_SEEN);
    // (2) cell level
    const Idx space(cfg);
    long leafIdx[NPART]; for(long p = 0; p < NPART; ++p) leafIdx[p] = leafIndexOf(space, p);
    bool mok = true, lok = true;
    tree.applyToAllCells([&](const long level, auto&& hdr, auto&& mOpt, auto&& lOpt){
        irsym_observe(hdr.spaceIndex);
        if(level >= upper && HEIGHT > upper){
            mok = mok & (mOpt->get()[0] == oracleMultipole(leafIdx, level, hdr.spaceIndex));
            lok = lok & (lOpt->get()[0] == oracleLocal(space, leafIdx, level, hdr.spaceIndex, upper));
            irsym_observe(mOpt->get()[0]); irsym_observe(lOpt->get()[0]);
        }
    });
    irsym_assert(mok, A_MULTIPOLE);
    irsym_assert(lok, A_LOCAL);
}
