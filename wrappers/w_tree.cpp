// E2 harnesses on a single tree + sequential executor (C01, C02, C06, C07, C08, C12, C16, C17 ...)
#include "h_common.hpp"
#include "h_checks.hpp"

// ---- oracles computed from the particles' leaf coordinates only (independent of the tree)
static long leafIndexOf(const Idx& s, long p){
    std::array<long, DIM> c; for(int d = 0; d < DIM; ++d) c[d] = gP.leafCoord(p, d);
    return s.getIndexFromBoxPos(c);
}
// sum of the weights of the particles below cell (level, idx): ancestor relation by shifting the particle's leaf index
static U oracleMultipole(const long leafIdx[NPART], long level, long idx){
    U r = 0;
    for(long p = 0; p < NPART; ++p) if((leafIdx[p] >> (DIM * (HEIGHT - 1 - level))) == idx) r += gP.w[p];
    return r;
}
static bool cellExists(const long leafIdx[NPART], long level, long idx){
    for(long p = 0; p < NPART; ++p) if((leafIdx[p] >> (DIM * (HEIGHT - 1 - level))) == idx) return true;
    return false;
}
static U oracleLocal(const Idx& s, const long leafIdx[NPART], long level, long idx, long upper){
    U r = 0;
    for(long l = level, i = idx; l >= upper && l >= 0; --l, i >>= DIM){
        const auto il = s.getInteractionListForIndex(i, l);
        for(const auto src : il) if(cellExists(leafIdx, l, src)) r += oracleMultipole(leafIdx, l, src);
    }
    return r;
}

// C01 (+ C02 when a2 != 0): build, execute, check rhs / multipoles / locals
// a0 = block size, a1 = one group per parent, a2 = geometry checks in the kernel, a3 = upper working level (-1: default)
// a0 < 0: block size forked over 1..-a0; a1 < 0: grouping mode forked; a3 == -2: upper level forked over {default, 0}
static void forkConfig(long& a0, long& a1, long& a3){
    if(a0 == -100) a0 = -1;                                   // automatic block size (TbfBlockSizeFinder::Estimate; hardware threads forked by the engine)
    else if(a0 < 0) a0 = 1 + irsym_choose(-a0);
    if(a1 < 0) a1 = irsym_choose(2);
    if(a3 == -2) a3 = irsym_choose(2) ? 0 : -1;
    irsym_note(1, a0); irsym_note(2, a1); irsym_note(3, a3);
}

ENTRY(h_c01){
    forkConfig(a0, a1, a3);
    const Cfg cfg = makeCfg();
    choosePositions(cfg, /*symmetric=*/true);
    U total = 0; for(long p = 0; p < NPART; ++p) total += gP.w[p];
    Tree tree(cfg, gP.pos, a0, a1 != 0);
    gReg.scan(tree);
    gK = KFlags(); gK.geom = a2 != 0;
    const long upper = a3 < 0 ? TbfDefaultLastLevel : a3;
    Algo algo(cfg, upper);
    algo.execute(tree);
    // (1) particle level: exactly one contribution from every other particle
    long seen = 0; bool rhsok = true;
    tree.applyToAllLeaves([&](auto&& hdr, const long* pidx, auto&&, auto&& rhs){
        for(long i = 0; i < hdr.nbParticles; ++i){
            for(int r = 0; r < NRHS; ++r){ rhsok = rhsok & (rhs[r][i] == U(r + 1) * (total - gP.w[pidx[i]])); irsym_observe(rhs[r][i]); }
            irsym_observe(pidx[i]);
            ++seen;
        }
    });
    irsym_assert(rhsok, A_RHS);
    irsym_assert(seen == NPART, A_SEEN);
    // (2) cell level
    const Idx space(cfg);
    long leafIdx[NPART]; for(long p = 0; p < NPART; ++p) leafIdx[p] = leafIndexOf(space, p);
    bool mok = true, lok = true;
    tree.applyToAllCells([&](const long level, auto&& hdr, auto&& mOpt, auto&& lOpt){
        irsym_observe(hdr.spaceIndex);
        if(level >= upper && HEIGHT > upper){
            mok = mok & (mOpt->get()[0] == oracleMultipole(leafIdx, level, hdr.spaceIndex));
            lok = lok & (lOpt->get()[0] == oracleLocal(space, leafIdx, level, hdr.spaceIndex, upper));
            irsym_observe(mOpt->get()[0]); irsym_observe(lOpt->get()[0]);
        }
    });
    irsym_assert(mok, A_MULTIPOLE);
    irsym_assert(lok, A_LOCAL);
}

static void leafIndexes(const Idx& space, long leafIdx[NPART]){ for(long p = 0; p < NPART; ++p) leafIdx[p] = leafIndexOfP(space, p); }

// C06: construction stores every particle once, in the right leaf, bit-exactly; execute never alters them
ENTRY(h_c06){
    forkConfig(a0, a1, a3);
    const Cfg cfg = makeCfg();
    choosePositions(cfg, /*symmetric=*/true);        // all per-particle symbols are independent, so particles are exchangeable
    const Idx space(cfg);
    Tree tree(cfg, gP.pos, a0, a1 != 0);
    checkConstruction(tree, space, /*expectZero=*/true);
    tree.applyToAllLeaves([&](auto&& hdr, const long* pidx, auto&&, auto&&){ irsym_observe(hdr.spaceIndex); for(long i = 0; i < hdr.nbParticles; ++i) irsym_observe(pidx[i]); });
    if(a2){
        gReg.scan(tree); gK = KFlags(); gK.geom = true;
        Algo algo(cfg, a3 < 0 ? TbfDefaultLastLevel : a3);
        algo.execute(tree);
        checkConstruction(tree, space, /*expectZero=*/false);       // positions, data, indices, leaf headers unchanged by execute
        long leafIdx[NPART]; leafIndexes(space, leafIdx);
        checkStructure(tree, space, leafIdx, a0, a1 != 0);           // cell headers unchanged
    }
}

// C07: the tree is the sorted, partitioned ancestor closure of the occupied leaves
ENTRY(h_c07){
    forkConfig(a0, a1, a3);
    const Cfg cfg = makeCfg();
    choosePositions(cfg, /*symmetric=*/true, /*symbolicPayload=*/false);
    const Idx space(cfg);
    Tree tree(cfg, gP.pos, a0, a1 != 0);
    long leafIdx[NPART]; leafIndexes(space, leafIdx);
    checkStructure(tree, space, leafIdx, a0 == -1 ? tree.getNbElementsPerGroup() : a0, a1 != 0);
    irsym_assert(tree.getNbElementsPerGroup() >= 1, S_BLOCKSIZE);
    for(long level = 0; level < HEIGHT; ++level){ irsym_observe(tree.getNbCellGroupsAtLevel(level)); for(const auto& g : tree.getCellGroupsAtLevel(level)) irsym_observe(g.getEndingSpacialIndex()); }
    if(a2){
        tree.rebuild();
        checkStructure(tree, space, leafIdx, a0, a1 != 0);
    }
}

// C16 (tree level): lookup finds exactly what exists
ENTRY(h_c16){
    forkConfig(a0, a1, a3);
    const Cfg cfg = makeCfg();
    choosePositions(cfg, /*symmetric=*/true, /*symbolicPayload=*/false);
    const Idx space(cfg);
    Tree tree(cfg, gP.pos, a0, a1 != 0);
    long leafIdx[NPART]; leafIndexes(space, leafIdx);
    if(a2) checkLookupSparse(tree, space, leafIdx); else checkLookup(tree, space, leafIdx);
}

// C17: bulk export before and after execute (and after rebuild when a2)
ENTRY(h_c17){
    forkConfig(a0, a1, a3);
    const Cfg cfg = makeCfg();
    choosePositions(cfg, /*symmetric=*/true);
    U total = 0; for(long p = 0; p < NPART; ++p) total += gP.w[p];
    Tree tree(cfg, gP.pos, a0, a1 != 0);
    U expect[NPART][NRHS + 1];
    for(long p = 0; p < NPART; ++p) for(int r = 0; r < NRHS; ++r) expect[p][r] = 0;
    checkExport(tree, expect, NRHS > 0);
    gReg.scan(tree); gK = KFlags();
    Algo algo(cfg);
    algo.execute(tree);
    for(long p = 0; p < NPART; ++p) for(int r = 0; r < NRHS; ++r) expect[p][r] = U(r + 1) * (total - gP.w[p]);
    checkExport(tree, expect, NRHS > 0);
    if(a2){
        tree.rebuild();
        checkExport(tree, expect, NRHS > 0);
    }
}

// ------------------------------------------------------------------ results of a run, keyed by (level, index) / original particle index
struct RunResult {
    long nbCells; long level[MaxCells]; long idx[MaxCells]; U m[MaxCells]; U l[MaxCells];
    U rhs[NPART][NRHS + 1];
    template <class TreeT> void capture(TreeT& tree){
        nbCells = 0;
        tree.applyToAllCells([this](const long lv, auto&& hdr, auto&& mOpt, auto&& lOpt){
            level[nbCells] = lv; idx[nbCells] = hdr.spaceIndex; m[nbCells] = mOpt->get()[0]; l[nbCells] = lOpt->get()[0]; ++nbCells;
        });
        tree.applyToAllLeaves([this](auto&& hdr, const long* pidx, auto&&, auto&& r){
            for(long i = 0; i < hdr.nbParticles; ++i) for(int k = 0; k < NRHS; ++k) rhs[pidx[i]][k] = r[k][i];
        });
    }
    long find(long lv, long ix) const { for(long i = 0; i < nbCells; ++i) if(level[i] == lv && idx[i] == ix) return i; return -1; }
};
static RunResult gRA, gRB;
enum Aid3 { E_LOGS = 160, E_CELLSET, E_MULTIPOLE, E_LOCAL, E_RHS,
            F_STAGED_M = 170, F_STAGED_L, F_STAGED_RHS, F_ONLY_OP, F_WRITE_M, F_WRITE_L, F_WRITE_RHS, F_UPPER, F_LEAFOPS, F_CHANGED,
            R_RHS_KEPT = 180, R_ZERO_M, R_ZERO_L, R_RHS_TWICE,
            B_CELL_ACC = 190, B_CELL_VAL, B_PART_ACC, B_PART_VAL, B_OP,
            T_P2M = 200, T_M2M, T_M2L, T_L2L, T_L2P, T_P2P, T_P2PINNER, T_RESULTS, T_PARTIAL, T_REDUCE_FOLD, T_REDUCE_TREE };

static void compareRuns(const RunResult& A, const RunResult& B, long aidM, long aidL, long aidR, long aidSet){
    bool setOk = A.nbCells == B.nbCells, mok = true, lok = true, rok = true;
    for(long i = 0; i < A.nbCells; ++i){
        const long j = B.find(A.level[i], A.idx[i]);
        setOk = setOk && j >= 0;
        if(j < 0) continue;
        mok = mok & (A.m[i] == B.m[j]); lok = lok & (A.l[i] == B.l[j]);
    }
    for(long p = 0; p < NPART; ++p) for(int k = 0; k < NRHS; ++k) rok = rok & (A.rhs[p][k] == B.rhs[p][k]);
    if(aidSet) irsym_assert(setOk, aidSet);
    irsym_assert(mok, aidM); irsym_assert(lok, aidL); irsym_assert(rok, aidR);
}

// C08: results and the multiset of elementary interactions do not depend on the grouping
// reference: one group per level (block size N+1, default mode); test: block size / mode forked through a0 / a1
ENTRY(h_c08){
    forkConfig(a0, a1, a3);
    const Cfg cfg = makeCfg();
    choosePositions(cfg, /*symmetric=*/true);
    const long upper = a3 < 0 ? TbfDefaultLastLevel : a3;
    {
        Tree ref(cfg, gP.pos, NPART + 1, false);
        gReg.scan(ref); gK = KFlags(); gK.logRun = 0;
        Algo algo(cfg, upper); algo.execute(ref); gRA.capture(ref);
    }
    {
        Tree tst(cfg, gP.pos, a0, a1 != 0);
        gReg.scan(tst); gK = KFlags(); gK.logRun = 1;
        Algo algo(cfg, upper); algo.execute(tst); gRB.capture(tst);
    }
    irsym_assert(irsym_logs_equal(0, 1) != 0, E_LOGS);
    compareRuns(gRA, gRB, E_MULTIPOLE, E_LOCAL, E_RHS, E_CELLSET);
    for(long p = 0; p < NPART; ++p) irsym_observe(gRB.rhs[p][0]);
    irsym_observe(irsym_log_count(1, OP_M2L)); irsym_observe(irsym_log_count(1, OP_P2P));
}

// C12: operator flags compose. a2 selects the sub-check: 0 staged partitions, 1 single flag alone (write sets), 2 upper working level
static const int kFlagOf[6] = { TbfAlgorithmUtils::TbfP2M, TbfAlgorithmUtils::TbfM2M, TbfAlgorithmUtils::TbfM2L, TbfAlgorithmUtils::TbfL2L,
                                TbfAlgorithmUtils::TbfL2P, TbfAlgorithmUtils::TbfP2P };
ENTRY(h_c12){
    long sub = a2;
    forkConfig(a0, a1, a3);
    const Cfg cfg = makeCfg();
    choosePositions(cfg, /*symmetric=*/true);
    if(sub == 0){
        // every partition of P2M<M2M<M2L<L2L<L2P into consecutive groups (cut mask), P2P merged into a group or as its own call anywhere
        const long cuts = irsym_choose(16);
        long groups[6]; long ng = 0; long cur = 0;
        for(int op = 0; op < 5; ++op){
            cur |= kFlagOf[op];
            if(op == 4 || ((cuts >> op) & 1)){ groups[ng++] = cur; cur = 0; }
        }
        const long where = irsym_choose(2 * ng + 1);       // < ng: merged into that call; otherwise a separate call before position where-ng
        long seq[8]; long ns = 0;
        for(long g = 0; g <= ng; ++g){
            if(where >= ng && where - ng == g) seq[ns++] = kFlagOf[5];
            if(g < ng) seq[ns++] = groups[g] | (where == g ? kFlagOf[5] : 0);
        }
        const long upper = a3 < 0 ? TbfDefaultLastLevel : a3;
        { Tree full(cfg, gP.pos, a0, a1 != 0); gReg.scan(full); gK = KFlags(); Algo algo(cfg, upper); algo.execute(full); gRA.capture(full); }
        { Tree st(cfg, gP.pos, a0, a1 != 0); gReg.scan(st); gK = KFlags(); Algo algo(cfg, upper);
          long all = 0; for(long i = 0; i < ns; ++i){ algo.execute(st, int(seq[i])); all |= seq[i]; irsym_note(10 + i, seq[i]); }
          irsym_assert(all == TbfAlgorithmUtils::TbfNearAndFarFields, F_CHANGED);
          gRB.capture(st); }
        compareRuns(gRA, gRB, F_STAGED_M, F_STAGED_L, F_STAGED_RHS, 0);
        irsym_observe(gRB.rhs[0][0]);
    }
    else if(sub == 1){
        // a single flag on a tree whose buffers are all non-trivial (after one full run): only that operator runs, only its outputs change
        const long op = irsym_choose(6);
        const long upper = a3 < 0 ? TbfDefaultLastLevel : a3;
        Tree tree(cfg, gP.pos, a0, a1 != 0); gReg.scan(tree); gK = KFlags();
        Algo algo(cfg, upper); algo.execute(tree); gRA.capture(tree);
        gK.logRun = 2; algo.execute(tree, kFlagOf[op]); gRB.capture(tree);
        bool only = true;
        for(long o = OP_P2M; o <= OP_P2PINNER; ++o){
            const bool mine = (o == OP_P2M + op) || (op == 5 && o == OP_P2PINNER);
            if(!mine) only = only && irsym_log_count(2, o) == 0;
        }
        irsym_assert(only, F_ONLY_OP);
        bool mSame = true, lSame = true, rSame = true;
        for(long i = 0; i < gRA.nbCells; ++i){ mSame = mSame & (gRA.m[i] == gRB.m[i]); lSame = lSame & (gRA.l[i] == gRB.l[i]); }
        for(long p = 0; p < NPART; ++p) for(int k = 0; k < NRHS; ++k) rSame = rSame & (gRA.rhs[p][k] == gRB.rhs[p][k]);
        if(op != 0 && op != 1) irsym_assert(mSame, F_WRITE_M);        // only P2M / M2M may write multipoles
        if(op != 2 && op != 3) irsym_assert(lSame, F_WRITE_L);        // only M2L / L2L may write locals
        if(op != 4 && op != 5) irsym_assert(rSame, F_WRITE_RHS);      // only L2P / P2P may write results
        irsym_observe(irsym_log_count(2, OP_P2M + op));
    }
    else{
        // upper working level u in 0..H: nothing above it
        const long u = irsym_choose(HEIGHT + 1);
        Tree tree(cfg, gP.pos, a0, a1 != 0); gReg.scan(tree); gK = KFlags(); gK.logRun = 3; gK.limitLevel0 = u;
        Algo algo(cfg, u); algo.execute(tree);
        // the log records (op, level, ...): M2M/L2L with the parent level, M2L with the level of the cells
        // levels are checked inside irsym_log consumers below through counts per level: re-run over registry is not needed, the kernel logged levels
        bool leafOps = true;
        const long nbLeaves = gReg.nbLeaves;
        if(HEIGHT > u) leafOps = irsym_log_count(3, OP_P2M) == NPART && irsym_log_count(3, OP_L2P) == NPART;
        else leafOps = irsym_log_count(3, OP_P2M) == 0 && irsym_log_count(3, OP_L2P) == 0;
        (void)nbLeaves;
        irsym_assert(leafOps, F_LEAFOPS);
        irsym_assert(irsym_log_count(3, 1000 + u) == 0, F_UPPER);      // 1000+u: number of logged M2M/M2L/L2L entries with level < u (computed by the log backend)
        // and the result is still exactly-once (the far field above u is empty for a non-periodic box when u <= 2; for u > 2 the lost far field is by definition)
        irsym_observe(irsym_log_count(3, OP_M2L));
    }
}

// C13: rebuild re-bins moved particles and preserves identity, data and results. a2 = number of move/rebuild/execute cycles (1 or 2)
ENTRY(h_c13){
    const long cycles = a2 < 1 ? 1 : a2;
    forkConfig(a0, a1, a3);
    const Cfg cfg = makeCfg();
    if(a4 == 0) choosePositions(cfg, /*symmetric=*/true);
    else{
        // fixed, spread-out initial placement (particle p at the centre of the p-th diagonal leaf); every displacement is explored below
        for(long p = 0; p < NPART; ++p){
            for(int d = 0; d < DIM; ++d){ gP.k[p][d] = 2 * ((p * (a4 == 1 ? 1 : 0)) % Side) + 1; gP.pos[p][d] = cfg.getBoxCorner()[d] + Real(gP.k[p][d]) * (cfg.getLeafWidths()[d] / Real(2)); }
            gP.w[p] = irsym_symbolic_u64();
            for(int e = 0; e < NEXTRA; ++e) gP.pos[p][DIM + e] = Real(1000 * (p + 1) + e) + Real(0.25);
        }
    }
    const Idx space(cfg);
    U total = 0; for(long p = 0; p < NPART; ++p) total += gP.w[p];
    Tree tree(cfg, gP.pos, a0, a1 != 0);
    gReg.scan(tree); gK = KFlags();
    Algo algo(cfg);
    algo.execute(tree);
    for(long c = 1; c <= cycles; ++c){
        // edit the positions in place (any subset of particles moves anywhere on the half lattice)
        for(long p = 0; p < NPART; ++p) for(int d = 0; d < DIM; ++d){
            gP.k[p][d] = chooseK();
            gP.pos[p][d] = cfg.getBoxCorner()[d] + Real(gP.k[p][d]) * (cfg.getLeafWidths()[d] / Real(2));
        }
        U pre[NPART][NRHS > 0 ? NRHS : 1];
        tree.applyToAllLeaves([&](auto&& hdr, const long* pidx, auto&& data, auto&& rhs){
            for(long i = 0; i < hdr.nbParticles; ++i){
                for(int d = 0; d < DIM; ++d) data[d][i] = static_cast<DataT>(gP.pos[pidx[i]][d]);
                for(int r = 0; r < NRHS; ++r) pre[pidx[i]][r] = rhs[r][i];
            }
        });
        tree.rebuild();
        // equivalent to a fresh tree of the edited particles
        checkConstruction(tree, space, /*expectZero=*/false);
        long leafIdx[NPART]; leafIndexes(space, leafIdx);
        checkStructure(tree, space, leafIdx, a0, a1 != 0);
        bool kept = true, mz = true, lz = true;
        tree.applyToAllLeaves([&](auto&& hdr, const long* pidx, auto&&, auto&& rhs){
            for(long i = 0; i < hdr.nbParticles; ++i) for(int r = 0; r < NRHS; ++r){
                kept = kept & (rhs[r][i] == pre[pidx[i]][r]);
#if ORD != 1
                kept = kept & (rhs[r][i] == U(c) * U(r + 1) * (total - gP.w[pidx[i]]));
#endif
            }
        });
        tree.applyToAllCells([&](const long, auto&&, auto&& mOpt, auto&& lOpt){ mz = mz && mOpt->get()[0] == 0; lz = lz && lOpt->get()[0] == 0; });
        irsym_assert(kept, R_RHS_KEPT); irsym_assert(mz, R_ZERO_M); irsym_assert(lz, R_ZERO_L);
        gReg.scan(tree);
        algo.execute(tree);
        bool twice = true;
#if ORD == 1
        // periodic ordering without the top-tree step: wrapped lists make a pair interact through several images, so the closed form of the
        // non-periodic case does not apply; the oracle is a fresh tree of the edited particles, executed once: rebuilt = kept + fresh
        U fr[NPART][NRHS > 0 ? NRHS : 1];
        {
            Tree fresh(cfg, gP.pos, a0, a1 != 0);
            algo.execute(fresh);
            fresh.applyToAllLeaves([&](auto&& hdr, const long* pidx, auto&&, auto&& rhs){
                for(long i = 0; i < hdr.nbParticles; ++i) for(int r = 0; r < NRHS; ++r) fr[pidx[i]][r] = rhs[r][i];
            });
        }
        tree.applyToAllLeaves([&](auto&& hdr, const long* pidx, auto&&, auto&& rhs){
            for(long i = 0; i < hdr.nbParticles; ++i){ for(int r = 0; r < NRHS; ++r) twice = twice & (rhs[r][i] == pre[pidx[i]][r] + fr[pidx[i]][r]); irsym_observe(rhs[0][i]); irsym_observe(pidx[i]); }
        });
#else
        tree.applyToAllLeaves([&](auto&& hdr, const long* pidx, auto&&, auto&& rhs){
            for(long i = 0; i < hdr.nbParticles; ++i){ for(int r = 0; r < NRHS; ++r) twice = twice & (rhs[r][i] == U(c + 1) * U(r + 1) * (total - gP.w[pidx[i]])); irsym_observe(rhs[0][i]); irsym_observe(pidx[i]); }
        });
#endif
        irsym_assert(twice, R_RHS_TWICE);
    }
}

// C14 (tree level): byte copies of every group's buffers, viewed through the raw-memory constructors, are equivalent views
template <class T> static unsigned char* copyBuf(const std::pair<T*, size_t>& ps){
    unsigned char* b = new unsigned char[ps.second ? ps.second : 1];
    if(ps.second) std::memcpy(b, ps.first, ps.second);
    return b;
}
ENTRY(h_c14){
    forkConfig(a0, a1, a3);
    const Cfg cfg = makeCfg();
    choosePositions(cfg, /*symmetric=*/true);
    const Idx space(cfg);
    Tree tree(cfg, gP.pos, a0, a1 != 0);
    gReg.scan(tree); gK = KFlags();
    Algo algo(cfg);
    algo.execute(tree);
    using CellGroup = typename Tree::CellGroupClass; using LeafGroup = typename Tree::LeafGroupClass;
    // every word of every expansion is made non-trivial, so that a view that looks for its trailer in the wrong place cannot read zeros by luck
    tree.applyToAllCells([&](const long lv, auto&& hdr, auto&&, auto&& lOpt){ for(int w = 1; w < LCELLN; ++w) lOpt->get()[w] = U(0x0101010101010101UL) * U(w + 1) + U(hdr.spaceIndex) + U(lv); });
    bool cacc = true, cval = true, pacc = true, pval = true, opok = true;
    for(long level = 0; level < HEIGHT; ++level){
        for(auto& g : tree.getCellGroupsAtLevel(level)){
            auto ps = g.getDataPtrsAndSizes();
            unsigned char* b0 = copyBuf(ps[0]); unsigned char* b1 = copyBuf(ps[1]); unsigned char* b2 = copyBuf(ps[2]);
            {
                // alternate between the two raw-memory constructors (six arguments / array of pointer-size pairs)
                const std::array<std::pair<unsigned char*, size_t>, 3> arr{{{b0, ps[0].second}, {b1, ps[1].second}, {b2, ps[2].second}}};
                CellGroup v = (level % 2 == 0) ? CellGroup(arr, true) : CellGroup(b0, ps[0].second, b1, ps[1].second, b2, ps[2].second, true);
                cacc = cacc && v.getNbCells() == g.getNbCells() && v.getStartingSpacialIndex() == g.getStartingSpacialIndex() && v.getEndingSpacialIndex() == g.getEndingSpacialIndex();
                for(long i = 0; i < g.getNbCells() && cacc; ++i){
                    cacc = cacc && v.getCellSpacialIndex(i) == g.getCellSpacialIndex(i);
                    for(int d = 0; d < DIM; ++d) cacc = cacc && v.getCellBoxCoord(i)[d] == g.getCellBoxCoord(i)[d];
                    cval = cval & (v.getCellMultipole(i)[0] == g.getCellMultipole(i)[0]) & (v.getCellLocal(i)[0] == g.getCellLocal(i)[0]);
                    auto f = v.getElementFromSpacialIndex(g.getCellSpacialIndex(i));
                    cacc = cacc && f && *f == i;
                    // element accessors stay inside their buffers
                    const unsigned char* pm = reinterpret_cast<const unsigned char*>(&v.getCellMultipole(i));
                    cacc = cacc && pm >= b1 && pm + sizeof(MCell) <= b1 + ps[1].second;
                    const unsigned char* pl = reinterpret_cast<const unsigned char*>(&v.getCellLocal(i));
                    cacc = cacc && pl >= b2 && pl + sizeof(LCell) <= b2 + ps[2].second;
                    for(int w = 1; w < LCELLN; ++w) cval = cval & (v.getCellLocal(i)[w] == g.getCellLocal(i)[w]);
                }
            }
            delete[] b0; delete[] b1; delete[] b2;
        }
    }
    TbfGroupKernelInterface<Idx> wrapper(space);
    Kernel kernel(cfg);
    for(auto& g : tree.getParticleGroups()){
        auto ps = g.getDataPtrsAndSizes();
        unsigned char* b0 = copyBuf(ps[0]); unsigned char* b1 = copyBuf(ps[1]);
        {
            LeafGroup v(b0, ps[0].second, b1, ps[1].second, true);
            pacc = pacc && v.getNbLeaves() == g.getNbLeaves() && v.getNbParticles() == g.getNbParticles()
                        && v.getStartingSpacialIndex() == g.getStartingSpacialIndex() && v.getEndingSpacialIndex() == g.getEndingSpacialIndex();
            for(long l = 0; l < g.getNbLeaves() && pacc; ++l){
                pacc = pacc && v.getLeafSpacialIndex(l) == g.getLeafSpacialIndex(l) && v.getNbParticlesInLeaf(l) == g.getNbParticlesInLeaf(l);
                for(int d = 0; d < DIM; ++d) pacc = pacc && v.getLeafBoxCoord(l)[d] == g.getLeafBoxCoord(l)[d];
                const auto vd = TbfUtils::make_const(v).getParticleData(l); const auto gd = TbfUtils::make_const(g).getParticleData(l);
                const auto vr = TbfUtils::make_const(v).getParticleRhs(l); const auto gr = TbfUtils::make_const(g).getParticleRhs(l);
                for(long i = 0; i < g.getNbParticlesInLeaf(l); ++i){
                    pacc = pacc && v.getParticleIndexes(l)[i] == g.getParticleIndexes(l)[i];
                    for(int k = 0; k < DIM + NEXTRA; ++k) pval = pval && std::memcmp(&vd[k][i], &gd[k][i], sizeof(DataT)) == 0;
                    for(int r = 0; r < NRHS; ++r) pval = pval & (vr[r][i] == gr[r][i]);
                }
            }
            // an operator on the copy computes what it computes on the original
            gReg.scan(tree);
            wrapper.P2PInner(kernel, v);
            wrapper.P2PInner(kernel, g);
            for(long l = 0; l < g.getNbLeaves(); ++l){
                const auto vr = TbfUtils::make_const(v).getParticleRhs(l); const auto gr = TbfUtils::make_const(g).getParticleRhs(l);
                for(long i = 0; i < g.getNbParticlesInLeaf(l); ++i) for(int r = 0; r < NRHS; ++r){ opok = opok & (vr[r][i] == gr[r][i]); irsym_observe(gr[r][i]); }
            }
        }
        delete[] b0; delete[] b1;
    }
    irsym_assert(cacc, B_CELL_ACC); irsym_assert(cval, B_CELL_VAL); irsym_assert(pacc, B_PART_ACC); irsym_assert(pval, B_PART_VAL); irsym_assert(opok, B_OP);
}

// C18: interaction counters report the true number of elementary interactions (sequential executor)
#include "kernels/counterkernels/tbfinteractioncounter.hpp"
using CKernel = TbfInteractionCounter<Kernel>;
using CAlgo = TbfAlgorithm<Real, CKernel, Idx>;
ENTRY(h_c18){
    forkConfig(a0, a1, a3);
    const Cfg cfg = makeCfg();
    choosePositions(cfg, /*symmetric=*/true);
    const Idx space(cfg);
    const long upper = a3 < 0 ? TbfDefaultLastLevel : a3;
    { Tree ref(cfg, gP.pos, a0, a1 != 0); gReg.scan(ref); gK = KFlags(); Algo algo(cfg, upper); algo.execute(ref); gRA.capture(ref); }
    Tree tree(cfg, gP.pos, a0, a1 != 0); gReg.scan(tree); gK = KFlags();
    CAlgo algo(cfg, upper);
    algo.execute(tree); gRB.capture(tree);
    compareRuns(gRA, gRB, T_RESULTS, T_RESULTS, T_RESULTS, T_RESULTS);        // wrapping leaves the results unchanged
    typename CKernel::ReduceType acc;
    algo.applyToAllKernels([&](const auto& k){ acc = CKernel::ReduceType::Reduce(acc, k.getReduceData()); });
    // oracle from the leaf index set only
    long leafIdx[NPART]; leafIndexes(space, leafIdx);
    const LevelSet leaves = levelSet(leafIdx, HEIGHT - 1);
    long nIn[NPART]; for(long i = 0; i < leaves.n; ++i){ nIn[i] = 0; for(long p = 0; p < NPART; ++p) if(leafIdx[p] == leaves.idx[i]) ++nIn[i]; }
    long eP2M = HEIGHT > upper ? leaves.n : 0, eM2M = 0, eM2L = 0, eP2P = 0, eInner = 0;
    for(long l = upper + 1; l <= HEIGHT - 1; ++l) eM2M += levelSet(leafIdx, l).n;
    for(long l = upper; l <= HEIGHT - 1; ++l){
        const LevelSet ls = levelSet(leafIdx, l);
        for(long t = 0; t < ls.n; ++t){
            const auto il = space.getInteractionListForIndex(ls.idx[t], l);
            for(const auto s : il) for(long j = 0; j < ls.n; ++j) if(ls.idx[j] == s) ++eM2L;
        }
    }
    for(long a = 0; a < leaves.n; ++a){
        eInner += nIn[a] * (nIn[a] - 1);
        const auto ca = space.getBoxPosFromIndex(leaves.idx[a]);
        for(long b = a + 1; b < leaves.n; ++b){
            const auto cb = space.getBoxPosFromIndex(leaves.idx[b]);
            long md = 0; for(int d = 0; d < DIM; ++d){ long x = ca[d] - cb[d]; if(x < 0) x = -x; if(x > md) md = x; }
            if(md == 1) eP2P += nIn[a] * nIn[b];
        }
    }
    irsym_assert(acc.P2M == eP2M, T_P2M); irsym_assert(acc.L2P == eP2M, T_L2P);
    irsym_assert(acc.M2M == eM2M, T_M2M); irsym_assert(acc.L2L == eM2M, T_L2L);
    irsym_assert(acc.M2L == eM2L, T_M2L); irsym_assert(acc.P2P == eP2P, T_P2P); irsym_assert(acc.P2PInner == eInner, T_P2PINNER);
    irsym_observe(acc.M2L); irsym_observe(acc.P2P); irsym_observe(acc.M2M);
    // partial runs: a counter moves only when its operator ran (a3 fixed per path; flags forked)
    {
        const long which = irsym_choose(3);
        const int flags = which == 0 ? (TbfAlgorithmUtils::TbfP2M | TbfAlgorithmUtils::TbfM2M | TbfAlgorithmUtils::TbfM2L)
                        : which == 1 ? (TbfAlgorithmUtils::TbfL2L | TbfAlgorithmUtils::TbfL2P) : TbfAlgorithmUtils::TbfP2P;
        Tree t2(cfg, gP.pos, a0, a1 != 0); gReg.scan(t2);
        CAlgo algo2(cfg, upper);
        algo2.execute(t2, flags);
        typename CKernel::ReduceType c2;
        algo2.applyToAllKernels([&](const auto& k){ c2 = CKernel::ReduceType::Reduce(c2, k.getReduceData()); });
        bool ok = true;
        ok = ok && c2.P2M == ((flags & TbfAlgorithmUtils::TbfP2M) ? eP2M : 0) && c2.M2M == ((flags & TbfAlgorithmUtils::TbfM2M) ? eM2M : 0);
        ok = ok && c2.M2L == ((flags & TbfAlgorithmUtils::TbfM2L) ? eM2L : 0) && c2.L2L == ((flags & TbfAlgorithmUtils::TbfL2L) ? eM2M : 0);
        ok = ok && c2.L2P == ((flags & TbfAlgorithmUtils::TbfL2P) ? eP2M : 0) && c2.P2P == ((flags & TbfAlgorithmUtils::TbfP2P) ? eP2P : 0);
        ok = ok && c2.P2PInner == ((flags & TbfAlgorithmUtils::TbfP2P) ? eInner : 0);
        irsym_assert(ok, T_PARTIAL);
    }
}

// C18: the documented merge is the field-wise sum, for arbitrary per-worker counter values and any merge order (symbolic counters)
ENTRY(h_c18_reduce){
    using C = typename CKernel::ReduceType;
    const long nw = 2 + irsym_choose(3);            // 2..4 workers
    C w[4];
    for(long i = 0; i < nw; ++i){
        w[i].P2M = (long)irsym_symbolic_u64(); w[i].M2M = (long)irsym_symbolic_u64(); w[i].M2L = (long)irsym_symbolic_u64(); w[i].L2L = (long)irsym_symbolic_u64();
        w[i].L2P = (long)irsym_symbolic_u64(); w[i].P2P = (long)irsym_symbolic_u64(); w[i].P2PInner = (long)irsym_symbolic_u64();
    }
    U e[7] = {0, 0, 0, 0, 0, 0, 0};
    for(long i = 0; i < nw; ++i){ e[0] += U(w[i].P2M); e[1] += U(w[i].M2M); e[2] += U(w[i].M2L); e[3] += U(w[i].L2L); e[4] += U(w[i].L2P); e[5] += U(w[i].P2P); e[6] += U(w[i].P2PInner); }
    // documented fold from an empty value, in a forked order (rotation + direction), and a pairwise tree merge
    const long rot = irsym_choose(nw); const long dir = irsym_choose(2);
    C acc;
    for(long i = 0; i < nw; ++i){ const long j = ((dir ? nw - 1 - i : i) + rot) % nw; acc = C::Reduce(acc, w[j]); }
    bool ok = U(acc.P2M) == e[0] && U(acc.M2M) == e[1] && U(acc.M2L) == e[2] && U(acc.L2L) == e[3] && U(acc.L2P) == e[4] && U(acc.P2P) == e[5] && U(acc.P2PInner) == e[6];
    irsym_assert(ok, T_REDUCE_FOLD);
    C t = C::Reduce(w[0], w[1]);
    if(nw == 3) t = C::Reduce(w[2], t);
    if(nw == 4) t = C::Reduce(t, C::Reduce(w[3], w[2]));
    bool ok2 = U(t.P2M) == e[0] && U(t.M2M) == e[1] && U(t.M2L) == e[2] && U(t.L2L) == e[3] && U(t.L2P) == e[4] && U(t.P2P) == e[5] && U(t.P2PInner) == e[6];
    irsym_assert(ok2, T_REDUCE_TREE);
}

// C18: the increment of every operator call, for arbitrary (symbolic 64-bit) call sizes up to 2^31 particles per leaf / entries per list:
// P2M, L2P: 1; M2M, M2L, L2L: the list length; P2P: |A|*|B|; P2PInner: n(n-1); nothing else moves; the call is forwarded unchanged
struct NopKernel {
    long fwd[4] = {0, 0, 0, 0};
    template <class A, class B, class C> void P2M(const A&, const long[], const B&, const long n, C&){ fwd[0] = 1; fwd[1] = n; }
    template <class A, class B, class C> void M2M(const A&, const long l, const B&, C&, const long[], const long n){ fwd[0] = 2; fwd[1] = n; fwd[2] = l; }
    template <class A, class B, class C> void M2L(const A&, const long l, const B&, const long[], const long n, C&){ fwd[0] = 3; fwd[1] = n; fwd[2] = l; }
    template <class A, class B, class C> void L2L(const A&, const long l, const B&, C&, const long[], const long n){ fwd[0] = 4; fwd[1] = n; fwd[2] = l; }
    template <class A, class B, class C, class D> void L2P(const A&, const B&, const long[], const C&, D&, const long n){ fwd[0] = 5; fwd[1] = n; }
    template <class A, class B, class C> void P2P(const A&, const long[], const B&, C&, const long ns, const A&, const long[], const B&, C&, const long nt, const long code){
        fwd[0] = 6; fwd[1] = ns; fwd[2] = nt; fwd[3] = code; }
    template <class A, class B, class C> void P2PInner(const A&, const long[], const B&, C&, const long n){ fwd[0] = 7; fwd[1] = n; }
};
enum AidCalls { T_CALL_DELTA = 215, T_CALL_OTHERS, T_CALL_FORWARD };
ENTRY(h_c18_calls){
    using CK = TbfInteractionCounter<NopKernel>;
    CK k;
    const U lim = U(1) << 31;
    const U n1 = irsym_symbolic_u64(), n2 = irsym_symbolic_u64(), lv = irsym_symbolic_u64();
    irsym_assume(n1 <= lim && n2 <= lim && lv < 64);
    const long a = long(n1), b = long(n2), level = long(lv);
    int sym = 0, cont = 0, cell = 0; const long idx[1] = {0};
    // a non-zero starting value: two earlier calls
    k.P2P(sym, idx, cont, cell, 3, sym, idx, cont, cell, 5, 0); k.M2L(sym, 2, cont, idx, 7, cell);
    const auto c0 = k.getReduceData();
    const long op = irsym_choose(7);
    if(op == 0) k.P2M(sym, idx, cont, a, cell);
    else if(op == 1) k.M2M(sym, level, cont, cell, idx, a);
    else if(op == 2) k.M2L(sym, level, cont, idx, a, cell);
    else if(op == 3) k.L2L(sym, level, cont, cell, idx, a);
    else if(op == 4) k.L2P(sym, cell, idx, cont, cell, a);
    else if(op == 5) k.P2P(sym, idx, cont, cell, a, sym, idx, cont, cell, b, level);
    else k.P2PInner(sym, idx, cont, cell, a);
    const auto c1 = k.getReduceData();
    const U d[7] = { U(c1.P2M) - U(c0.P2M), U(c1.M2M) - U(c0.M2M), U(c1.M2L) - U(c0.M2L), U(c1.L2L) - U(c0.L2L), U(c1.L2P) - U(c0.L2P), U(c1.P2P) - U(c0.P2P),
                     U(c1.P2PInner) - U(c0.P2PInner) };
    const U expect = (op == 0 || op == 4) ? U(1) : (op == 5 ? n1 * n2 : (op == 6 ? n1 * n1 - n1 : n1));
    irsym_assert(d[op] == expect, T_CALL_DELTA);
    bool others = true; for(long i = 0; i < 7; ++i) if(i != op) others = others && d[i] == 0;
    irsym_assert(others, T_CALL_OTHERS);
    const NopKernel& nk = k;
    bool fw = nk.fwd[0] == op + 1 && nk.fwd[1] == a;
    if(op >= 1 && op <= 3) fw = fw && nk.fwd[2] == level;
    if(op == 5) fw = fw && nk.fwd[2] == b && nk.fwd[3] == level;
    irsym_assert(fw, T_CALL_FORWARD);
}

// C15 / C01 corner: a tree built from an empty particle set is a valid (if useless) input: build, query, execute, rebuild, export, destroy
enum AidE { E_EMPTY = 230 };
ENTRY(h_empty){
    forkConfig(a0, a1, a3);
    const Cfg cfg = makeCfg();
    std::vector<std::array<Real, NData>> none;
    Tree tree(cfg, none, a0, a1 != 0);
    bool ok = tree.getNbParticles() == 0 && tree.getNbParticleGroups() == 0 && tree.getHeight() == HEIGHT;
    for(long level = 0; level < HEIGHT; ++level){
        ok = ok && tree.getNbCellGroupsAtLevel(level) == 0 && tree.getCellGroupsAtLevel(level).size() == 0;
        ok = ok && !tree.findGroupWithCell(level, 0);
    }
    ok = ok && !tree.findGroupWithLeaf(0) && tree.getLeafGroups().size() == 0;
    long cells = 0, leaves = 0;
    tree.applyToAllCells([&](const long, auto&&, auto&&, auto&&){ ++cells; });
    tree.applyToAllLeaves([&](auto&&, const long*, auto&&, auto&&){ ++leaves; });
    gReg.scan(tree); gK = KFlags();
    Algo algo(cfg);
    algo.execute(tree);
    tree.rebuild();
    algo.execute(tree);
    auto d = tree.getAllParticlesData(); auto r = tree.getAllParticlesRhs();
    irsym_assert(ok && cells == 0 && leaves == 0, E_EMPTY);
    irsym_observe(cells);
}
