// C20: direct particle-particle routines (scalar paths of FP2PR). Harness code for E3 (irsym with real arithmetic).
#include <array>
#include "tbfglobal.hpp"
#include "utils/tbfutils.hpp"
#include "kernels/P2P/FP2PR.hpp"
#ifndef REALT
#define REALT double
#endif
#ifndef NMAXP
#define NMAXP 4
#endif
using Real = REALT;
extern "C" { double irsym_symbolic_real(void); void irsym_output_real(long idx, double v); }
#define ENTRY(name) extern "C" __attribute__((noinline)) void name(long a0, long a1, long a2, long a3, long a4, long a5)
// every array has exactly as many elements as the count handed to the routine: touching element [count] (or [0] of an empty set) is out of bounds
static Real* S[4]; static Real* T[4]; static Real* SR[4]; static Real* TR[4];
// a0 = routine (0 FullMutual, 1 GenericInner, 2 GenericFullRemote, 3 MutualParticles, 4 NonMutualParticles), a1 = #sources, a2 = #targets
// inputs are requested in this order: per source x,y,z,q,rhs0..3 ; per target x,y,z,q,rhs0..3 ; outputs: per source rhs0..3, per target rhs0..3
ENTRY(h_p2p){
    const long ns = a1, nt = a2;
    for(int c = 0; c < 4; ++c){ S[c] = new Real[ns]; SR[c] = new Real[ns]; T[c] = new Real[nt]; TR[c] = new Real[nt]; }
    for(long j = 0; j < ns; ++j){ for(int c = 0; c < 4; ++c) S[c][j] = Real(irsym_symbolic_real()); for(int c = 0; c < 4; ++c) SR[c][j] = Real(irsym_symbolic_real()); }
    for(long i = 0; i < nt; ++i){ for(int c = 0; c < 4; ++c) T[c][i] = Real(irsym_symbolic_real()); for(int c = 0; c < 4; ++c) TR[c][i] = Real(irsym_symbolic_real()); }
    std::array<const Real*, 4> sv{{S[0], S[1], S[2], S[3]}}, tv{{T[0], T[1], T[2], T[3]}};
    std::array<Real*, 4> sr{{SR[0], SR[1], SR[2], SR[3]}}, tr{{TR[0], TR[1], TR[2], TR[3]}};
    if(a0 == 0) FP2PR::FullMutual<Real>(sv, sr, ns, tv, tr, nt);
    else if(a0 == 1) FP2PR::GenericInner<Real>(tv, tr, nt);
    else if(a0 == 2) FP2PR::GenericFullRemote<Real>(sv, ns, tv, tr, nt);
    else if(a0 == 3 && ns >= 1 && nt >= 1) FP2PR::MutualParticles<Real>(S[0][0], S[1][0], S[2][0], S[3][0], &SR[0][0], &SR[1][0], &SR[2][0], &SR[3][0],
                                                 T[0][0], T[1][0], T[2][0], T[3][0], &TR[0][0], &TR[1][0], &TR[2][0], &TR[3][0]);
    else if(a0 == 4 && ns >= 1 && nt >= 1) FP2PR::NonMutualParticles<Real>(S[0][0], S[1][0], S[2][0], S[3][0], T[0][0], T[1][0], T[2][0], T[3][0], &TR[0][0], &TR[1][0], &TR[2][0], &TR[3][0]);
    long k = 0;
    for(long j = 0; j < ns; ++j) for(int c = 0; c < 4; ++c) irsym_output_real(k++, double(SR[c][j]));
    for(long i = 0; i < nt; ++i) for(int c = 0; c < 4; ++c) irsym_output_real(k++, double(TR[c][i]));
    for(int c = 0; c < 4; ++c){ delete[] S[c]; delete[] SR[c]; delete[] T[c]; delete[] TR[c]; }
}
