// C03: OpenMP executors under a mock runtime (clang lowering, -fopenmp -fopenmp-version=45). Harness code.
#include "h_common.hpp"
#include "h_checks.hpp"
#include "algorithms/openmp/tbfopenmpalgorithm.hpp"
using OAlgo = TbfOpenmpAlgorithm<Real, Kernel, Idx>;
extern "C" void irsym_omp_mode(long mode);     // 0: not in a task-parallel run; 1: task-based run starts (mock runtime active, schedule forked by the runtime)

struct RunResult {
    long nbCells; long level[MaxCells]; long idx[MaxCells]; U m[MaxCells]; U l[MaxCells];
    U rhs[NPART][NRHS + 1];
    template <class TreeT> void capture(TreeT& tree){
        nbCells = 0;
        tree.applyToAllCells([this](const long lv, auto&& hdr, auto&& mOpt, auto&& lOpt){
            level[nbCells] = lv; idx[nbCells] = hdr.spaceIndex; m[nbCells] = mOpt->get()[0]; l[nbCells] = lOpt->get()[0]; ++nbCells;
        });
        tree.applyToAllLeaves([this](auto&& hdr, const long* pidx, auto&&, auto&& r){
            for(long i = 0; i < hdr.nbParticles; ++i) for(int k = 0; k < NRHS; ++k) rhs[pidx[i]][k] = r[k][i];
        });
    }
};
static RunResult gRA, gRB;
enum AidO { O_MULTIPOLE = 600, O_LOCAL, O_RHS, O_CELLS };

// a0 block size (<0 forked), a1 grouping (<0 forked), a2 geometry checks, a3 upper level (-1 default, -2 forked)
ENTRY(h_c03){
    if(a0 < 0) a0 = 1 + irsym_choose(-a0);
    if(a1 < 0) a1 = irsym_choose(2);
    if(a3 == -2) a3 = irsym_choose(2) ? 0 : -1;
    irsym_note(1, a0); irsym_note(2, a1); irsym_note(3, a3);
    const Cfg cfg = makeCfg();
    choosePositions(cfg, /*symmetric=*/true);
    const long upper = a3 < 0 ? TbfDefaultLastLevel : a3;
    { Tree ref(cfg, gP.pos, a0, a1 != 0); gReg.scan(ref); gK = KFlags(); Algo algo(cfg, upper); algo.execute(ref); gRA.capture(ref); }
    Tree tree(cfg, gP.pos, a0, a1 != 0);
    gReg.scan(tree); gK = KFlags(); gK.geom = a2 != 0;
    {
        OAlgo algo(cfg, upper);
        irsym_omp_mode(1);
        algo.execute(tree);
        irsym_omp_mode(0);
    }
    gRB.capture(tree);
    bool mok = gRA.nbCells == gRB.nbCells, lok = true, rok = true;
    for(long i = 0; i < gRA.nbCells && i < gRB.nbCells; ++i){ mok = mok & (gRA.m[i] == gRB.m[i]); lok = lok & (gRA.l[i] == gRB.l[i]); }
    for(long p = 0; p < NPART; ++p) for(int k = 0; k < NRHS; ++k){ rok = rok & (gRA.rhs[p][k] == gRB.rhs[p][k]); irsym_observe(gRB.rhs[p][k]); }
    irsym_assert(mok, O_MULTIPOLE); irsym_assert(lok, O_LOCAL); irsym_assert(rok, O_RHS);
}
