// C03: OpenMP executors under a mock runtime (clang lowering, -fopenmp -fopenmp-version=45). Harness code.
#include "h_common.hpp"
#include "h_checks.hpp"
#include "algorithms/openmp/tbfopenmpalgorithm.hpp"
using OAlgo = TbfOpenmpAlgorithm<Real, Kernel, Idx>;
extern "C" void irsym_omp_mode(long mode);     // 0: not in a task-parallel run; 1: task-based run starts (mock runtime active, schedule forked by the runtime)

struct RunResult {
    long nbCells; long level[MaxCells]; long idx[MaxCells]; U m[MaxCells]; U l[MaxCells];
    U rhs[NPART][NRHS + 1];
    template <class TreeT> void capture(TreeT& tree){
        nbCells = 0;
        tree.applyToAllCells([this](const long lv, auto&& hdr, auto&& mOpt, auto&& lOpt){
            level[nbCells] = lv; idx[nbCells] = hdr.spaceIndex; m[nbCells] = mOpt->get()[0]; l[nbCells] = lOpt->get()[0]; ++nbCells;
        });
        tree.applyToAllLeaves([this](auto&& hdr, const long* pidx, auto&&, auto&& r){
            for(long i = 0; i < hdr.nbParticles; ++i) for(int k = 0; k < NRHS; ++k) rhs[pidx[i]][k] = r[k][i];
        });
    }
};
static RunResult gRA, gRB;
enum AidO { O_MULTIPOLE = 600, O_LOCAL, O_RHS, O_CELLS };

// a0 block size (<0 forked), a1 grouping (<0 forked), a2 geometry checks, a3 upper level (-1 default, -2 forked)
ENTRY(h_c03){
    if(a0 < 0) a0 = 1 + irsym_choose(-a0);
    if(a1 < 0) a1 = irsym_choose(2);
    if(a3 == -2) a3 = irsym_choose(2) ? 0 : -1;
    irsym_note(1, a0); irsym_note(2, a1); irsym_note(3, a3);
    const Cfg cfg = makeCfg();
    choosePositions(cfg, /*symmetric=*/true);
    const long upper = a3 < 0 ? TbfDefaultLastLevel : a3;
    { Tree ref(cfg, gP.pos, a0, a1 != 0); gReg.scan(ref); gK = KFlags(); Algo algo(cfg, upper); algo.execute(ref); gRA.capture(ref); }
    Tree tree(cfg, gP.pos, a0, a1 != 0);
    gReg.scan(tree); gK = KFlags(); gK.geom = a2 != 0;
    {
        OAlgo algo(cfg, upper);
        irsym_omp_mode(1);
        algo.execute(tree);
        irsym_omp_mode(0);
    }
    gRB.capture(tree);
    bool mok = gRA.nbCells == gRB.nbCells, lok = true, rok = true;
    for(long i = 0; i < gRA.nbCells && i < gRB.nbCells; ++i){ mok = mok & (gRA.m[i] == gRB.m[i]); lok = lok & (gRA.l[i] == gRB.l[i]); }
    for(long p = 0; p < NPART; ++p) for(int k = 0; k < NRHS; ++k){ rok = rok & (gRA.rhs[p][k] == gRB.rhs[p][k]); irsym_observe(gRB.rhs[p][k]); }
    irsym_assert(mok, O_MULTIPOLE); irsym_assert(lok, O_LOCAL); irsym_assert(rok, O_RHS);
}

// C18 under the OpenMP executor: per-worker counter kernels, merged as documented, equal the sequential executor's counters
#include "kernels/counterkernels/tbfinteractioncounter.hpp"
extern "C" void irsym_omp_worker_local(const void* ptr, long bytes);
using CKernel = TbfInteractionCounter<Kernel>;
using CAlgoSeq = TbfAlgorithm<Real, CKernel, Idx>;
using CAlgoOmp = TbfOpenmpAlgorithm<Real, CKernel, Idx>;
enum AidOC { OC_COUNTERS = 610, OC_RESULTS };
ENTRY(h_c18_omp){
    if(a0 < 0) a0 = 1 + irsym_choose(-a0);
    if(a1 < 0) a1 = irsym_choose(2);
    const Cfg cfg = makeCfg();
    choosePositions(cfg, /*symmetric=*/true);
    const long upper = a3 < 0 ? TbfDefaultLastLevel : a3;
    typename CKernel::ReduceType ref;
    { Tree t(cfg, gP.pos, a0, a1 != 0); gReg.scan(t); gK = KFlags(); CAlgoSeq algo(cfg, upper); algo.execute(t); gRA.capture(t);
      algo.applyToAllKernels([&](const auto& k){ ref = CKernel::ReduceType::Reduce(ref, k.getReduceData()); }); }
    Tree tree(cfg, gP.pos, a0, a1 != 0); gReg.scan(tree); gK = KFlags();
    typename CKernel::ReduceType acc;
    {
        CAlgoOmp algo(cfg, upper);
        const unsigned char* lo = nullptr; const unsigned char* hi = nullptr;
        algo.applyToAllKernels([&](const auto& k){ const unsigned char* p = reinterpret_cast<const unsigned char*>(&k); if(!lo || p < lo) lo = p; if(!hi || p + sizeof(k) > hi) hi = p + sizeof(k); });
        irsym_omp_worker_local(lo, hi - lo);
        irsym_omp_mode(1);
        algo.execute(tree);
        irsym_omp_mode(0);
        algo.applyToAllKernels([&](const auto& k){ acc = CKernel::ReduceType::Reduce(acc, k.getReduceData()); });
    }
    gRB.capture(tree);
    bool rok = true; for(long p = 0; p < NPART; ++p) rok = rok & (gRA.rhs[p][0] == gRB.rhs[p][0]);
    irsym_assert(rok, OC_RESULTS);
    irsym_assert(acc.P2M == ref.P2M && acc.M2M == ref.M2M && acc.M2L == ref.M2L && acc.L2L == ref.L2L && acc.L2P == ref.L2P && acc.P2P == ref.P2P && acc.P2PInner == ref.P2PInner, OC_COUNTERS);
    irsym_observe(acc.M2L); irsym_observe(acc.P2P);
}
