// C16 lookup kernels over a caller-laid-out raw buffer (raw-memory constructors): no heap involved.
#include "tbfglobal.hpp"
#include "utils/tbfutils.hpp"
#include "spacial/tbfspacialconfiguration.hpp"
#include "spacial/tbfmortonspaceindex.hpp"
#include "core/tbfcellscontainer.hpp"
#include "core/tbfparticlescontainer.hpp"
#ifndef DIM
#define DIM 3
#endif
using Real = double;
using Cfg = TbfSpacialConfiguration<Real, DIM>;
using Idx = TbfMortonSpaceIndex<DIM, Cfg, false>;
using Cells = TbfCellsContainer<Real, std::array<long,1>, std::array<long,1>, Idx>;
using Parts = TbfParticlesContainer<Real, Real, DIM, long, 1, Idx>;
#define API extern "C" __attribute__((noinline))
static Idx mk(){ std::array<Real,DIM> w, c; for(int i=0;i<DIM;++i){ w[i]=1; c[i]=0.5; } return Idx(Cfg(5, w, c)); }
API long w_lookup(unsigned char* d, unsigned long ds, unsigned char* m, unsigned long ms, unsigned char* l, unsigned long ls, long q){
    Cells c(d, ds, m, ms, l, ls, true);
    auto r = c.getElementFromSpacialIndex(q);
    return r ? *r : -1;
}
API long w_lookup_parent(unsigned char* d, unsigned long ds, unsigned char* m, unsigned long ms, unsigned char* l, unsigned long ls, long q){
    Idx s = mk();
    Cells c(d, ds, m, ms, l, ls, true);
    auto r = c.getElementFromParentIndex(s, q);
    return r ? *r : -1;
}
API long w_lookup_leaf(unsigned char* d, unsigned long ds, unsigned char* r0, unsigned long rs, long q){
    Parts p(d, ds, r0, rs, true);
    auto r = p.getElementFromSpacialIndex(q);
    return r ? *r : -1;
}
API long w_lower_bound(const long* arr, long n, long q){
    return TbfUtils::lower_bound_indexes(0, n, q, [arr](const auto& i, const auto& v){ return arr[i] < v; });
}
API long w_sizeof_cellheader(){ return sizeof(long) + sizeof(std::array<long, DIM>); }
