// Native implementation of the irsym_* harness vocabulary: the same wrapper TU, compiled with g++ against the real
// headers, is (a) the replay vehicle for a counterexample found by the symbolic run and (b) the reference side of the
// per-run differential self-check of the interpreter.
//   prog replay <entry> <file>            file: "args a0..a5", "choices c0 c1 ...", "syms v0 v1 ..."
//   prog random <entry> <seed> <count> a0..a5   prints one line per run: choices / syms / observation hash
#include <cstdio>
#include <cstdlib>
#include <cstring>
#include <vector>
#include <map>
#include <algorithm>
#include <array>
#include <string>
#include <dlfcn.h>
#include <unistd.h>
#include <sys/wait.h>
typedef void (*entry_t)(long, long, long, long, long, long);
static std::vector<long> gChoices; static size_t gCi = 0;
static std::vector<unsigned long> gSyms; static size_t gSi = 0;
static std::vector<long> gMadeChoices; static std::vector<unsigned long> gMadeSyms;
static bool gRandom = false; static unsigned long gRng = 88172645463325252UL;
static unsigned long gHash = 0, gNobs = 0;
static std::map<long, std::vector<std::array<long,5>>> gLogs;
static unsigned long rnd(){ gRng ^= gRng << 13; gRng ^= gRng >> 7; gRng ^= gRng << 17; return gRng; }
static void finish(int rc, const char* why){
    printf("choices"); for(long c : gMadeChoices) printf(" %ld", c);
    printf(" | syms"); for(unsigned long v : gMadeSyms) printf(" %lu", v);
    printf(" | nobs %lu hash %016lx | %s\n", gNobs, gHash, why); fflush(stdout); _exit(rc);
}
extern "C" {
long irsym_choose(long n){
    long d;
    if(gRandom) d = (long)(rnd() % (unsigned long)n);
    else d = gCi < gChoices.size() ? gChoices[gCi++] : 0;
    if(d < 0 || d >= n) d = 0;
    gMadeChoices.push_back(d); return d;
}
unsigned long irsym_symbolic_u64(void){
    unsigned long v;
    if(gRandom){ v = rnd(); if(rnd() & 1) v >>= (rnd() % 64); }
    else v = gSi < gSyms.size() ? gSyms[gSi++] : 0;
    gMadeSyms.push_back(v); return v;
}
void irsym_assert(bool c, long id){ if(!c){ char b[64]; snprintf(b, sizeof b, "ASSERT %ld FAILED", id); finish(1, b); } }
void irsym_assume(bool c){ if(!c) finish(0, "assume false"); }
void irsym_observe(unsigned long v){ gHash = ((gHash ^ v) * 0x100000001b3UL) + 0x9e3779b97f4a7c15UL; ++gNobs; }
void irsym_note(long, long){}
void irsym_log(long run, long op, long level, long tgt, long src, long code){ gLogs[run].push_back({{op, level, tgt, src, code}}); }
long irsym_logs_equal(long a, long b){ auto x = gLogs[a], y = gLogs[b]; std::sort(x.begin(), x.end()); std::sort(y.begin(), y.end()); return x == y; }
long irsym_log_count(long run, long op){ long n = 0; for(auto& e : gLogs[run]){ if(op >= 1000){ if((e[0] == 2 || e[0] == 3 || e[0] == 4) && e[1] < op - 1000) ++n; } else if(e[0] == op) ++n; } return n; }
void irsym_log_clear(long run){ gLogs[run].clear(); }
long irsym_is_symbolic_run(void){ return 0; }
void irsym_omp_mode(long){}
void irsym_omp_worker_local(const void*, long){}
}
int main(int argc, char** argv){
    if(argc < 3){ fprintf(stderr, "usage\n"); return 2; }
    entry_t fn = (entry_t)dlsym(RTLD_DEFAULT, argv[2]);
    if(!fn){ fprintf(stderr, "no entry %s\n", argv[2]); return 2; }
    long a[6] = {0,0,0,0,0,0};
    if(!strcmp(argv[1], "replay")){
        FILE* f = fopen(argv[3], "r"); if(!f){ perror("open"); return 2; }
        char line[1 << 16];
        while(fgets(line, sizeof line, f)){
            char* tok = strtok(line, " \n"); if(!tok) continue;
            std::string kind = tok; int i = 0;
            while((tok = strtok(nullptr, " \n"))){
                if(kind == "args"){ if(i < 6) a[i++] = atol(tok); }
                else if(kind == "choices") gChoices.push_back(atol(tok));
                else if(kind == "syms") gSyms.push_back(strtoul(tok, nullptr, 10));
            }
        }
        fclose(f);
        fn(a[0], a[1], a[2], a[3], a[4], a[5]);
        finish(0, "all assertions hold");
    }
    if(!strcmp(argv[1], "random")){
        unsigned long seed = strtoul(argv[3], nullptr, 10); long count = atol(argv[4]);
        for(int i = 0; i < 6 && 5 + i < argc; ++i) a[i] = atol(argv[5 + i]);
        for(long r = 0; r < count; ++r){
            fflush(stdout);
            pid_t pid = fork();
            if(pid == 0){
                gRandom = true; gRng = (seed * 2654435761UL + r * 40503UL) ^ 88172645463325252UL; rnd(); rnd();
                fn(a[0], a[1], a[2], a[3], a[4], a[5]);
                finish(0, "ok");
            }
            int st = 0; waitpid(pid, &st, 0);
            if(!WIFEXITED(st)){ printf("CRASH signal %d\n", WTERMSIG(st)); fflush(stdout); }
        }
        return 0;
    }
    return 2;
}
