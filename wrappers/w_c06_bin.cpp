// C06 binning of an arbitrary (off-lattice) position: position -> grid coordinate, for a fixed box, symbolic position (E1)
#include "tbfglobal.hpp"
#include "utils/tbfutils.hpp"
#include "spacial/tbfspacialconfiguration.hpp"
#include "spacial/tbfmortonspaceindex.hpp"
#ifndef REALT
#define REALT float
#endif
#ifndef HEIGHT
#define HEIGHT 6
#endif
#ifndef BOXW
#define BOXW 1.0
#endif
#ifndef BOXC
#define BOXC 0.5
#endif
using Real = REALT;
using Cfg = TbfSpacialConfiguration<Real, 1>;
using Idx = TbfMortonSpaceIndex<1, Cfg, false>;
#define API extern "C" __attribute__((noinline))
// returns the grid coordinate the library assigns to position x (Dim 1: index == coordinate)
API long w_bin(Real x){
    std::array<Real,1> w{{Real(BOXW)}}, c{{Real(BOXC)}};
    Idx s(Cfg(HEIGHT, w, c));
    std::array<Real,1> p{{x}};
    return s.getIndexFromPosition(p);
}
API Real w_corner(){ std::array<Real,1> w{{Real(BOXW)}}, c{{Real(BOXC)}}; return Cfg(HEIGHT, w, c).getBoxCorner()[0]; }
API Real w_leafwidth(){ std::array<Real,1> w{{Real(BOXW)}}, c{{Real(BOXC)}}; return Cfg(HEIGHT, w, c).getLeafWidths()[0]; }
