/* C11, leaf index algebra.  DIM, LMAX (max level, DIM*LMAX <= 62), ORD (2 = Hilbert: LEVEL fixed < HEIGHT) */
#ifndef DIM
#define DIM 3
#endif
#ifndef LMAX
#define LMAX 5
#endif
uint64_t W(w_idx_from_pos)(uint64_t*); void W(w_pos_from_idx)(uint64_t, uint64_t*);
uint64_t W(w_parent)(uint64_t); uint64_t W(w_childpos)(uint64_t); uint64_t W(w_child)(uint64_t, uint64_t); uint64_t W(w_upper)(uint64_t);
void W(w_rel_from_inter)(uint64_t, uint64_t*); void W(w_rel_from_neigh)(uint64_t, uint64_t*);
uint64_t W(w_inter_from_rel)(uint64_t*); uint64_t W(w_neigh_from_rel)(uint64_t*);
uint64_t W(w_nb_children)(void); uint64_t W(w_nb_inter)(void); uint64_t W(w_nb_neigh)(void);
#if ORD != 2
uint64_t W(w_boxlimit)(uint64_t);
#endif

/* bijection, parent containment, child code */
void h_c11_grid(void){
  uint64_t lvl, p[DIM], q[DIM], r[DIM], pp[DIM], i;
  NONDET_R(lvl, LMIN, LMAX);
  const uint64_t lim = (uint64_t)1 << lvl, upper = (uint64_t)1 << (DIM * lvl);
  for(int d=0; d<DIM; ++d) NONDET_RI(p, d, 0, lim - 1);
  uint64_t up = W(w_upper)(lvl); OBS(up);
  ASSERT(up == upper, "getUpperBound(l) == 2^(Dim*l)");
#if ORD != 2
  uint64_t bl = W(w_boxlimit)(lvl); OBS(bl);
  ASSERT(bl == lim, "getBoxLimit(l) == 2^l");
#endif
  uint64_t idx = W(w_idx_from_pos)(p); OBS(idx);
  ASSERT(idx < upper, "index(pos) below the level's upper bound");
  W(w_pos_from_idx)(idx, q);
  for(int d=0; d<DIM; ++d){ OBS(q[d]); ASSERT(q[d] == p[d], "pos(index(pos)) == pos"); }
  NONDET_R(i, 0, upper - 1);
  W(w_pos_from_idx)(i, r);
  for(int d=0; d<DIM; ++d){ OBS(r[d]); ASSERT(r[d] < lim, "pos(i) inside the grid of the level"); }
  uint64_t back = W(w_idx_from_pos)(r); OBS(back);
  ASSERT(back == i, "index(pos(i)) == i");
  uint64_t par = W(w_parent)(idx), c = W(w_childpos)(idx); OBS(par); OBS(c);
  ASSERT(c < ((uint64_t)1 << DIM), "child code below 2^Dim");
  ASSERT(W(w_child)(par, c) == idx, "child(parent(i), code(i)) == i");
  if(lvl >= 1){
    ASSERT(par < ((uint64_t)1 << (DIM * (lvl - 1))), "parent index below the upper bound of its level");
    W(w_pos_from_idx)(par, pp);
    for(int d=0; d<DIM; ++d){ OBS(pp[d]);
#ifdef CHECK_CONTAINMENT
      ASSERT(pp[d] == (p[d] >> 1), "containment: pos(parent(i)) == pos(i) >> 1");
#endif
#ifdef CHECK_OCTANT
      ASSERT(((c >> (DIM - 1 - d)) & 1) == (p[d] & 1), "octant: bit Dim-1-d of the child code == low bit of coordinate d");
#endif
    }
  }
  WITNESS_POINT();
}

/* position codes: encode/decode inverse, for every code and every offset */
void h_c11_codes(void){
  uint64_t code7, code3, a7[DIM], a3[DIM], rel[DIM], v[DIM];
  uint64_t p7 = 1, p3 = 1; for(int d=0; d<DIM; ++d){ p7 *= 7; p3 *= 3; }
  ASSERT(W(w_nb_children)() == ((uint64_t)1 << DIM), "children per cell");
  { uint64_t p6 = 1; for(int d=0; d<DIM; ++d) p6 *= 6; ASSERT(W(w_nb_inter)() == p6 - p3, "interactions per cell == 6^Dim - 3^Dim"); }
  ASSERT(W(w_nb_neigh)() == p3 - 1, "neighbours per leaf == 3^Dim - 1");
  NONDET_R(code7, 0, p7 - 1);
  W(w_rel_from_inter)(code7, rel);
  for(int d=0; d<DIM; ++d){ OBS(rel[d]); ASSERT((int64_t)rel[d] >= -3 && (int64_t)rel[d] <= 3, "decoded transfer offset in [-3,3]"); }
  ASSERT(W(w_inter_from_rel)(rel) == code7, "encode(decode(code)) == code (base 7)");
  for(int d=0; d<DIM; ++d){ NONDET_RI(a7, d, 0, 6); v[d] = a7[d] - 3; }
  uint64_t e = W(w_inter_from_rel)(v); OBS(e);
  ASSERT(e < p7, "transfer code below 7^Dim");
  W(w_rel_from_inter)(e, rel);
  for(int d=0; d<DIM; ++d) ASSERT(rel[d] == v[d], "decode(encode(v)) == v (base 7)");
  /* base 3 */
  NONDET_R(code3, 0, p3 - 1);
  W(w_rel_from_neigh)(code3, rel);
  for(int d=0; d<DIM; ++d){ OBS(rel[d]); ASSERT((int64_t)rel[d] >= -1 && (int64_t)rel[d] <= 1, "decoded neighbour offset in [-1,1]"); }
  ASSERT(W(w_neigh_from_rel)(rel) == code3, "encode(decode(code)) == code (base 3)");
  for(int d=0; d<DIM; ++d){ NONDET_RI(a3, d, 0, 2); v[d] = a3[d] - 1; }
  e = W(w_neigh_from_rel)(v); OBS(e);
  ASSERT(e < p3, "neighbour code below 3^Dim");
  W(w_rel_from_neigh)(e, rel);
  for(int d=0; d<DIM; ++d) ASSERT(rel[d] == v[d], "decode(encode(v)) == v (base 3)");
  WITNESS_POINT();
}
