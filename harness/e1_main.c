/* native driver for E1 harnesses: replay of a cbmc counterexample, or seeded random runs printing an
 * observation hash (differential self-check: real g++ build vs. gcc build of the ir2c output) */
#include <stdio.h>
#include <stdlib.h>
#include <string.h>
#include <stdint.h>
#include <setjmp.h>
#include <signal.h>
#include <sys/time.h>
void HARNESS(void);
static sigjmp_buf jb;
static void on_alarm(int sig){ (void)sig; siglongjmp(jb, 3); }
static void arm(long usec){ struct itimerval t; t.it_interval.tv_sec = 0; t.it_interval.tv_usec = 0; t.it_value.tv_sec = usec / 1000000; t.it_value.tv_usec = usec % 1000000; setitimer(ITIMER_VIRTUAL, &t, 0); }
static int mode;            /* 0 replay, 1 random */
static char names[512][64]; static uint64_t vals[512]; static int nvals;
static uint64_t rng, obs_hash, nobs; static int failed;
static uint64_t rnd(void){ rng ^= rng << 13; rng ^= rng >> 7; rng ^= rng << 17; return rng; }
uint64_t e1_next(const char* name, uint64_t lo, uint64_t hi){
  if(mode == 0){
    for(int i=0;i<nvals;++i) if(!strcmp(names[i], name)) return vals[i];
    return lo;   /* variable not constrained by the counterexample */
  }
  uint64_t span = hi - lo;   /* inclusive */
  uint64_t r = rnd(), v;
  switch(r & 7){
    case 0: v = lo; break;
    case 1: v = hi; break;
    case 2: { uint64_t b = (rnd() % 64); uint64_t p = ((uint64_t)1 << b); v = lo + (span == ~(uint64_t)0 ? p : p % (span + 1)); break; }
    case 3: { uint64_t b = (rnd() % 64); uint64_t p = ((uint64_t)1 << b) - 1; v = lo + (span == ~(uint64_t)0 ? p : p % (span + 1)); break; }
    default: { uint64_t x = rnd(); if((r >> 3) & 1) x >>= (rnd() % 64); v = lo + (span == ~(uint64_t)0 ? x : x % (span + 1)); }
  }
  return v;
}
uint64_t e1_nexti(const char* name, int i, uint64_t lo, uint64_t hi){ char b[64]; snprintf(b, sizeof b, "%s[%d]", name, i); return e1_next(b, lo, hi); }
void e1_skip(void){ siglongjmp(jb, 1); }
void e1_fail(const char* msg){ failed = 1; if(mode == 0){ printf("ASSERTION FAILED: %s\n", msg); } siglongjmp(jb, 2); }
void e1_obs(uint64_t v){ obs_hash = (obs_hash ^ v) * 0x100000001b3ULL + 0x9e3779b97f4a7c15ULL; ++nobs; }
int main(int argc, char** argv){
  if(argc >= 3 && !strcmp(argv[1], "replay")){
    FILE* f = fopen(argv[2], "r"); if(!f){ perror("open"); return 3; }
    while(nvals < 512 && fscanf(f, "%63s %lu", names[nvals], &vals[nvals]) == 2) ++nvals;
    fclose(f); mode = 0;
    int r = sigsetjmp(jb, 1);
    if(r == 0){ HARNESS(); printf("replay: all assertions hold\n"); return 0; }
    if(r == 1){ printf("replay: assumption not satisfied (vacuous)\n"); return 0; }
    return 1;
  }
  if(argc >= 4 && !strcmp(argv[1], "random")){
    rng = strtoull(argv[2], 0, 10) * 2654435761ULL + 88172645463325252ULL; long n = atol(argv[3]); mode = 1;
    long ran = 0, skipped = 0, fails = 0, hangs = 0;
    signal(SIGVTALRM, on_alarm);
    for(long i=0;i<n;++i){
      uint64_t keep = obs_hash, keepn = nobs;
      int r = sigsetjmp(jb, 1);
      if(r == 0){ arm(20000); HARNESS(); arm(0); ++ran; e1_obs(0x11); }
      else if(r == 1){ arm(0); ++skipped; e1_obs(0x22); }
      else if(r == 2){ arm(0); ++fails; e1_obs(0x33); }
      else { ++hangs; obs_hash = keep; nobs = keepn; e1_obs(0x44); }   /* 20 ms of CPU time in one case: treated as non-termination */
    }
    printf("ran=%ld skipped=%ld failed=%ld hangs=%ld nobs=%lu hash=%016lx\n", ran, skipped, fails, hangs, nobs, obs_hash);
    return 0;
  }
  fprintf(stderr, "usage: %s replay file | random seed count\n", argv[0]); return 2;
}
