/* Harness vocabulary for E1 (ir2c + cbmc) queries.
 * The same harness source is used three ways:
 *   cbmc            : included after the ir2c-generated C; inputs are nondet, verdict by the solver
 *   native, real    : gcc-compiled, linked with the g++ build of the real wrapper (replay of counterexamples,
 *                     reference side of the differential self-check)
 *   native, -DGENC  : gcc-compiled together with the ir2c-generated C (translated side of the self-check)
 */
#ifndef E1_H
#define E1_H
#include <stdint.h>
#include <stddef.h>
#ifdef __CPROVER__
uint64_t nondet_u64(void);
#define NONDET(x) x = nondet_u64()
#define ASSUME(c) __CPROVER_assume(c)
#define ASSERT(c, msg) __CPROVER_assert(c, msg)
#define OBS(v) ((void)0)
#define W(n) f_##n
#else
uint64_t e1_next(const char* name, uint64_t lo, uint64_t hi);
void e1_skip(void);
void e1_fail(const char* msg);
void e1_obs(uint64_t v);
#define NONDET(x) x = e1_next(#x, 0, ~(uint64_t)0)
#define ASSUME(c) do { if(!(c)) e1_skip(); } while(0)
#define ASSERT(c, msg) do { if(!(c)) e1_fail(msg); } while(0)
#define OBS(v) e1_obs((uint64_t)(v))
#ifdef GENC
#define W(n) f_##n
#else
#define W(n) n
#endif
#endif
/* input in [lo,hi] (unsigned compare): assumption under cbmc, sampling range natively */
#ifdef __CPROVER__
#define NONDET_R(x, lo, hi) do { x = nondet_u64(); __CPROVER_assume((uint64_t)(x) >= (uint64_t)(lo) && (uint64_t)(x) <= (uint64_t)(hi)); } while(0)
#else
#define NONDET_R(x, lo, hi) x = e1_next(#x, (uint64_t)(lo), (uint64_t)(hi))
#endif
/* indexed input arr[i] in [lo,hi] */
#ifdef __CPROVER__
#define NONDET_RI(arr, i, lo, hi) do { (arr)[i] = nondet_u64(); __CPROVER_assume((uint64_t)((arr)[i]) >= (uint64_t)(lo) && (uint64_t)((arr)[i]) <= (uint64_t)(hi)); } while(0)
#else
uint64_t e1_nexti(const char* name, int i, uint64_t lo, uint64_t hi);
#define NONDET_RI(arr, i, lo, hi) (arr)[i] = e1_nexti(#arr, (int)(i), (uint64_t)(lo), (uint64_t)(hi))
#endif
#ifdef WITNESS
#define WITNESS_POINT() ASSERT(0, "witness: end of harness reachable")
#else
#define WITNESS_POINT() ((void)0)
#endif
#endif
