/* C06: a position anywhere in the closed box lands in the leaf whose (rounded) bounds contain it.
 * REAL is float or double; the position is an arbitrary value of that type inside [corner, corner+width]. */
#ifndef REAL
#define REAL float
#endif
#ifndef HEIGHT
#define HEIGHT 6
#endif
uint64_t W(w_bin)(REAL); REAL W(w_corner)(void); REAL W(w_leafwidth)(void);
#ifdef __CPROVER__
float nondet_float(void); double nondet_double(void);
#define NONDET_REAL(x) x = (sizeof(REAL) == 4 ? (REAL)nondet_float() : (REAL)nondet_double())
#else
#include <string.h>
static REAL real_from_bits(uint64_t b){ REAL r; if(sizeof(REAL) == 4){ uint32_t u = (uint32_t)b; memcpy(&r, &u, 4); } else memcpy(&r, &b, 8); return r; }
#define NONDET_REAL(x) x = real_from_bits(e1_next(#x "_bits", 0, ~(uint64_t)0))
#endif
void h_c06_bin(void){
  REAL x; NONDET_REAL(x);
  const REAL corner = W(w_corner)(), lw = W(w_leafwidth)();
  const REAL width = (REAL)BOXW;
  const REAL rel = x - corner;
  ASSUME(x == x);                                   /* not NaN */
  ASSUME(rel >= (REAL)0 && rel <= width);           /* inside the closed box, as the library's own precondition states */
  const int64_t side = (int64_t)1 << (HEIGHT - 1);
  const int64_t c = (int64_t)W(w_bin)(x); OBS(c);
  ASSERT(0 <= c && c < side, "coordinate inside the grid (closed upper face clamped)");
  /* the leaf [c*lw, (c+1)*lw] contains the position, up to one rounding of the products */
  /* a position within rounding distance of a face may go to either adjacent leaf: the quotient rel/lw is rounded once,
     the leaf width itself is a rounded value; tolerance = 4 units in the last place of the box width */
  const REAL tol = width * (sizeof(REAL) == 4 ? (REAL)4.76837158203125e-07 : (REAL)8.8817841970012523e-16);
  const REAL lo = (REAL)c * lw, hi = (REAL)(c + 1) * lw;
  ASSERT(lo <= rel + tol, "position not below its leaf (up to rounding at the face)");
  ASSERT(rel <= hi + tol, "position not above its leaf (up to rounding at the face)");
  WITNESS_POINT();
}
