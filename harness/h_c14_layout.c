/* C14 layout arithmetic: for every item count 0..NMAX, every element index and row.
 * ESZ, NROWS as in the wrapper. No memory is accessed: addresses are computed from a base pointer into a static buffer. */
#ifndef NMAX
#define NMAX 10000
#endif
void W(w_sizes)(uint64_t, uint64_t*); void W(w_addr)(uint64_t, uint64_t, uint64_t, uint8_t*, uint64_t*);
#define R64(x) ((((x) + 63) / 64) * 64)
#include <stdlib.h>
#define MAXBYTES ((R64((uint64_t)ESZ * NMAX) * NROWS > (uint64_t)NMAX * R64((uint64_t)ESZ * NROWS) ? R64((uint64_t)ESZ * NMAX) * NROWS : (uint64_t)NMAX * R64((uint64_t)ESZ * NROWS)) + 64)
void h_c14_layout(void){
  uint64_t n, i, row, i2, row2, s[6], a[5], b[5];
  uint8_t* BUF = (uint8_t*)malloc(MAXBYTES);   /* never accessed: only addresses inside it are formed */
  ASSUME(BUF != 0);
  NONDET_R(n, 0, NMAX);
  W(w_sizes)(n, s);
  for(int k = 0; k < 6; ++k) OBS(s[k]);
  const uint64_t lead = R64((uint64_t)ESZ * n), leadRows = R64((uint64_t)ESZ * NROWS);
  ASSERT(s[0] == R64(ESZ), "scalar block = element size rounded up to the alignment");
  ASSERT(s[1] % 64 == 0 && s[1] >= (uint64_t)ESZ * n && s[1] < (uint64_t)ESZ * n + 64, "vector block: multiple of 64, holds n items, minimal");
  ASSERT(s[4] == lead, "leading dimension = row bytes rounded up to the alignment");
#if (ESZ % 64 == 0) || (64 % ESZ == 0)
  ASSERT(s[2] == NROWS * lead, "multi-row block = NbRows x leading dimension");
#endif
#if 64 % ESZ == 0
  ASSERT(s[3] == n * leadRows, "multi-column block = n x rounded row-vector size");
#endif
  if(n > 0){
    NONDET_R(i, 0, n - 1); NONDET_R(row, 0, NROWS - 1); NONDET_R(i2, 0, n - 1); NONDET_R(row2, 0, NROWS - 1);
    W(w_addr)(n, i, row, BUF, a); W(w_addr)(n, i2, row2, BUF, b);
    for(int k = 0; k < 5; ++k) OBS(a[k]);
    ASSERT(a[0] == (uint64_t)ESZ * i && a[0] + ESZ <= s[1], "vector element inside its block");
#if (ESZ % 64 == 0) || (64 % ESZ == 0)
    ASSERT(a[1] == row * lead + (uint64_t)ESZ * i && a[1] + ESZ <= s[2], "multi-row element inside its block");
#endif
#if 64 % ESZ == 0
    ASSERT(a[2] == i * leadRows + (uint64_t)ESZ * row && a[2] + ESZ <= s[3], "multi-column element inside its block");
#endif
    ASSERT(a[3] == a[0] && a[4] == a[1], "const viewers address the same bytes");
    ASSERT(a[0] % s[5] == 0 && a[1] % s[5] == 0 && a[2] % s[5] == 0, "element addresses keep the element alignment");
    if(i != i2 || row != row2){
#if (ESZ % 64 == 0) || (64 % ESZ == 0)
      ASSERT(a[1] + ESZ <= b[1] || b[1] + ESZ <= a[1], "distinct (item,row) of a multi-row block do not overlap");
#endif
#if 64 % ESZ == 0
      ASSERT(a[2] + ESZ <= b[2] || b[2] + ESZ <= a[2], "distinct (item,row) of a multi-column block do not overlap");
#endif
    }
    if(i != i2) ASSERT(a[0] + ESZ <= b[0] || b[0] + ESZ <= a[0], "distinct items of a vector block do not overlap");
  }
  WITNESS_POINT();
  free(BUF);
}
