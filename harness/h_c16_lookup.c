/* C16 lookup kernels (Dim 3): a group viewed through the raw-memory constructor over a buffer laid out here.
 * Symbolic: number of cells K <= KMAX, the K strictly increasing 63-bit indices, the query (any 64-bit value). */
#ifndef KMAX
#define KMAX 8
#endif
uint64_t W(w_lookup)(uint8_t*, uint64_t, uint8_t*, uint64_t, uint8_t*, uint64_t, uint64_t);
uint64_t W(w_lookup_parent)(uint8_t*, uint64_t, uint8_t*, uint64_t, uint8_t*, uint64_t, uint64_t);
uint64_t W(w_lookup_leaf)(uint8_t*, uint64_t, uint8_t*, uint64_t, uint64_t);
uint64_t W(w_lower_bound)(uint64_t*, uint64_t, uint64_t);

#define ROUND64(x) ((((x) + 63) / 64) * 64)
#define CELLSZ 32      /* spaceIndex + boxCoord[3] */
#define DSZ (64 + ROUND64(CELLSZ * KMAX) + 32)
static uint8_t D[DSZ] __attribute__((aligned(64)));
static uint8_t Mb[ROUND64(8 * KMAX) + 16] __attribute__((aligned(64)));
static uint8_t Lb[ROUND64(8 * KMAX) + 16] __attribute__((aligned(64)));

void h_c16_cells(void){
  uint64_t K, idx[KMAX], q;
  NONDET_R(K, 1, KMAX);
  for(int i = 0; i < KMAX; ++i){
    NONDET_RI(idx, i, 0, 0x7FFFFFFFFFFFFFFFULL);
    if(i) ASSUME(idx[i-1] < idx[i]);
  }
  uint64_t* hd = (uint64_t*)D; hd[0] = idx[0]; hd[2] = K;
  for(int i = 0; i < KMAX; ++i){ uint64_t* c = (uint64_t*)(D + 64 + CELLSZ * i); c[0] = idx[i]; if((uint64_t)i == K - 1) hd[1] = idx[i]; }
  uint64_t* tr = (uint64_t*)(D + DSZ - 32); tr[0] = 0; tr[1] = 64; tr[2] = 1; tr[3] = K;
  uint64_t* tm = (uint64_t*)(Mb + sizeof Mb - 16); tm[0] = 0; tm[1] = K;
  uint64_t* tl = (uint64_t*)(Lb + sizeof Lb - 16); tl[0] = 0; tl[1] = K;
  NONDET(q);
  int64_t r = (int64_t)W(w_lookup)(D, DSZ, Mb, sizeof Mb, Lb, sizeof Lb, q); OBS(r);
  int64_t expect = -1;
  for(int i = 0; i < KMAX; ++i) if((uint64_t)i < K && idx[i] == q) expect = i;
  ASSERT(r == expect, "getElementFromSpacialIndex returns position i iff index[i] == query, nothing otherwise");
  int64_t rp = (int64_t)W(w_lookup_parent)(D, DSZ, Mb, sizeof Mb, Lb, sizeof Lb, q); OBS(rp);
  int64_t ep = -1;
  for(int i = KMAX - 1; i >= 0; --i) if((uint64_t)i < K && (int64_t)q >= 0 && (idx[i] >> 3) == q) ep = i;
  ASSERT(rp == ep, "getElementFromParentIndex returns the first child of the parent iff one exists, nothing otherwise");
  WITNESS_POINT();
}

#define LEAFSZ 48      /* spaceIndex, nbParticles, offSet, boxCoord[3] */
#define PSZ (64 + ROUND64(LEAFSZ * KMAX) + 64 + 64 * 3 + 64)
static uint8_t P[PSZ] __attribute__((aligned(64)));
static uint8_t R[64 + 16] __attribute__((aligned(64)));
void h_c16_leaves(void){
  uint64_t K, idx[KMAX], q;
  NONDET_R(K, 1, KMAX);
  for(int i = 0; i < KMAX; ++i){
    NONDET_RI(idx, i, 0, 0x7FFFFFFFFFFFFFFFULL);
    if(i) ASSUME(idx[i-1] < idx[i]);
  }
  uint64_t* hd = (uint64_t*)P; hd[0] = idx[0]; hd[2] = K; hd[3] = K;
  for(int i = 0; i < KMAX; ++i){ uint64_t* c = (uint64_t*)(P + 64 + LEAFSZ * i); c[0] = idx[i]; c[1] = 1; c[2] = i; if((uint64_t)i == K - 1) hd[1] = idx[i]; }
  uint64_t o2 = 64 + ROUND64(LEAFSZ * KMAX), o3 = o2 + 64;
  uint64_t* tr = (uint64_t*)(P + PSZ - 64); tr[0] = 0; tr[1] = 64; tr[2] = o2; tr[3] = o3; tr[4] = 1; tr[5] = K; tr[6] = K; tr[7] = K * 3;
  uint64_t* trr = (uint64_t*)(R + sizeof R - 16); trr[0] = 0; trr[1] = K;
  NONDET(q);
  int64_t r = (int64_t)W(w_lookup_leaf)(P, PSZ, R, sizeof R, q); OBS(r);
  int64_t expect = -1;
  for(int i = 0; i < KMAX; ++i) if((uint64_t)i < K && idx[i] == q) expect = i;
  ASSERT(r == expect, "leaf lookup returns position i iff index[i] == query, nothing otherwise");
  WITNESS_POINT();
}

/* the shared binary search: first position whose element is not less than the value, for any sorted array */
#ifndef NMAX
#define NMAX 12
#endif
void h_c16_lower_bound(void){
  uint64_t n, a[NMAX], q;
  NONDET_R(n, 0, NMAX);
  for(int i = 0; i < NMAX; ++i){ NONDET_RI(a, i, 0, ~(uint64_t)0); if(i) ASSUME((int64_t)a[i-1] <= (int64_t)a[i]); }
  NONDET(q);
  uint64_t r = W(w_lower_bound)(a, n, q); OBS(r);
  ASSERT(r <= n, "result within [0,n]");
  for(int i = 0; i < NMAX; ++i){
    if((uint64_t)i < r) ASSERT((int64_t)a[i] < (int64_t)q, "everything before the result is smaller");
    if((uint64_t)i >= r && (uint64_t)i < n) ASSERT((int64_t)a[i] >= (int64_t)q, "everything from the result on is not smaller");
  }
  WITNESS_POINT();
}
